"""C11 -- all data sources equivalent; the row window selects exactly its rows (DESIGN.md section 5, C11)."""
from __future__ import annotations
import copy
from vf import gen

PROP = 'C11'
META = {
    'level': 'exploration',
    'rule': ('one evaluation = one (frame set, source kind / permutation / mapping / window / chunk size) write compared '
             'byte-for-byte with the reference write (inline data; pre-sliced arrays for a window); signature = (source '
             'kind, permuted?, extra datasets?, dataset-name mapping?, window class, chunk relation); non-trivial when '
             'the window is not the whole range or the source is permuted / has extra datasets'),
    'required_obs': {'quick': ['cmp-dict', 'cmp-struct', 'cmp-hdf5', 'cmp-inline-window', 'window-dict', 'window-struct',
                               'window-hdf5', 'window-inline', 'permuted', 'extra-datasets', 'mapping', 'open-ended',
                               'frames-decoded', 'fastpath-permuted', 'fastpath-aligned', 'fastpath-view', 'fastpath-packed', 'same-data-object-reused',
                               'repeated-channel-names', 'repeated-channel-names-across-sets', 'paths-as-Path', 'int-cast-out-of-range', 'float-cast-out-of-range', 'index-of-signed-zeros', 'window-bounds-as-numpy-integers', 'float-cast-reference-written', 'float-cast-reference-refused', 'consecutive-windows-one-file',
                               'index-channel-with-units', 'permuted-dataset-names']},
    'exhaustive_windows': {'quick': ['all windows 0 <= from < to <= N for N = 4, every source kind'],
                           'thorough': ['all windows 0 <= from < to <= N for N in 1..6, every source kind x input chunk {None,1,2}']},
    'assumptions': ['origins carry explicit file_set_number and creation_time so that nothing random enters the bytes'],
}
META['required_obs']['thorough'] = META['required_obs']['quick']

SOURCES = ['inline', 'dict', 'struct', 'hdf5']


def np_fits(v, t):
    import numpy as np
    i = np.iinfo(np.dtype(t))
    return i.min <= v <= i.max


def cases(tier, seed):
    i = 0
    for N in ([4] if tier == 'quick' else [1, 2, 3, 4, 5, 6]):
        for ics in ([None] if tier == 'quick' else [None, 1, 2]):
            yield {'stratum': 'all-windows', 'index': i, 'kind': 'windows', 'N': N, 'ics': ics}
            i += 1
    for k in range(160 if tier == 'quick' else 5000):
        yield {'stratum': 'random', 'index': k, 'kind': 'random'}
    for k in range(100 if tier == 'quick' else 3000):
        yield {'stratum': 'struct-fastpath', 'index': k, 'kind': 'fastpath'}
    # declared integer casts of out-of-range values: the conversion must not depend on the kind of source
    for k in range(40 if tier == 'quick' else 1000):
        yield {'stratum': 'int-cast-out-of-range', 'index': k, 'kind': 'int-cast'}
    # declared casts of floats, some of which the target cannot hold: refused or written, the same for every kind of source
    for k in range(60 if tier == 'quick' else 1500):
        yield {'stratum': 'float-cast-out-of-range', 'index': k, 'kind': 'float-cast'}
    # the window bounds given as numpy integers of several widths (what numpy computations hand back), larger data
    for k in range(24 if tier == 'quick' else 500):
        yield {'stratum': 'window-bounds-as-numpy-integers', 'index': k, 'kind': 'np-window'}
    # an index channel holding both zeros (-0.0 and 0.0 compare equal: which of them a minimum / maximum returns is up to
    # the reduction order, i.e. to the memory layout the source hands over)
    for k in range(30 if tier == 'quick' else 600):
        yield {'stratum': 'index-of-signed-zeros', 'index': k, 'kind': 'signed-zeros'}
    # ONE DLISFile written several times with consecutive row windows (the data split over several files)
    for k in range(40 if tier == 'quick' else 1000):
        yield {'stratum': 'consecutive-windows-one-file', 'index': k, 'kind': 'consecutive'}
    # dataset_name mappings that PERMUTE the names (channel A <- data set B, channel B <- data set A), equal dtypes and shapes
    for k in range(30 if tier == 'quick' else 600):
        yield {'stratum': 'permuted-dataset-names', 'index': k, 'kind': 'permuted-names'}
    # channel names repeated across the frames (and channel sets) of one logical file: every channel still gets its own data
    for k in range(40 if tier == 'quick' else 1000):
        yield {'stratum': 'repeated-channel-names', 'index': k, 'kind': 'repeated'}


def presliced(sp, a, b):
    """Same spec with every channel's array pre-sliced to [a, b) and no window, inline."""
    q = copy.deepcopy(sp)
    for o in q['ops']:
        if o['op'] == 'channel' and o.get('data') is not None:
            n = o['data']['shape'][0]
            o['data']['slice'] = [a, n if b is None else b]
    q['write'] = {k: v for k, v in q['write'].items() if k in ('output_chunk_size',)}
    q['write']['source'] = 'inline'
    return q


def run_case(case):
    from vf import harness, oracle
    seed = case.get('seed', 0)
    obs, sigs, vio = {}, [], []
    evals = 0

    def bump(k, n=1):
        obs[k] = obs.get(k, 0) + n

    def run(sp):
        r_ = harness.execute(sp, want_taps=False)
        return r_

    def compare(ref, sp, label, sig, nontrivial, decode=False):
        nonlocal evals
        evals += 1
        bump('cmp-' + label.split(':')[0])
        x = run(sp)
        if nontrivial:
            sigs.append(sig)
        if ref.data is None and x.data is None:
            bump('both-raised')
            return
        if (ref.data is None) != (x.data is None):
            bad = x if x.data is None else ref
            vio.append({'prop': PROP, 'kind': 'source-outcome-differs', 'mech': 'outcome:' + label,
                        'detail': f'{label}: reference {"ok" if ref.data is not None else ref.wout[1:]}, variant '
                                  f'{"ok" if x.data is not None else x.wout[1:]}', 'variant': sp['write']})
            return
        if ref.data != x.data:
            d = next(i for i in range(min(len(ref.data), len(x.data))) if ref.data[i] != x.data[i]) \
                if ref.data[:min(len(ref.data), len(x.data))] != x.data[:min(len(ref.data), len(x.data))] else min(len(ref.data), len(x.data))
            vio.append({'prop': PROP, 'kind': 'bytes-differ', 'mech': 'bytes:' + label,
                        'detail': f'{label}: files differ at offset {d} (sizes {len(ref.data)} / {len(x.data)})',
                        'variant': sp['write']})
        if decode and x.data is not None:
            oracle.check_frames(x)
            bump('frames-decoded', x.obs.get('frame-checked', 0))
            for v in x.by_prop('C03'):
                vio.append({'prop': PROP, 'kind': 'window-rows', 'mech': 'rows:' + label + ':' + v.mech, 'detail': v.detail,
                            'variant': sp['write']})

    if case['kind'] == 'windows':
        N = case['N']
        r = gen.rng(seed, PROP, case['stratum'], case['index'])
        base = gen.frame_spec(r, mx=512, rows=N, nch=3, sources=('inline',), layouts=('C', 'F', 'strided'), max_width=60)
        base['write'] = {'source': 'inline', 'output_chunk_size': 2 ** 16}
        for a in range(N):
            for b in list(range(a + 1, N + 1)) + [None]:
                ref = run(presliced(base, a, b))
                for src in SOURCES:
                    sp = copy.deepcopy(base)
                    sp['write'].update({'source': src, 'from_idx': a, 'to_idx': b, 'input_chunk_size': case['ics']})
                    whole = (a == 0 and b in (N, None))
                    if b is None:
                        bump('open-ended')
                    bump('window-' + src)
                    compare(ref, sp, ('%s-window' % src if src == 'inline' else src + ':window'),
                            f'{src}:w{a}-{b}:{case["ics"]}', not whole, decode=(src != 'inline' or not whole))
        sample = {'kind': 'all windows', 'N': N, 'channels': [(o['name'], o['data']['dtype'], o['data']['shape'])
                                                               for o in base['ops'] if o['op'] == 'channel']}
    elif case['kind'] == 'fastpath':
        r = gen.rng(seed, PROP, case['stratum'], case['index'])
        base = gen.fastpath_spec(r)
        N = [o for o in base['ops'] if o['op'] == 'channel'][0]['data']['shape'][0]
        wsave = dict(base['write'])
        base['write'] = {'source': 'inline', 'output_chunk_size': 2 ** 16}
        ref = run(base)
        sp = copy.deepcopy(base)
        sp['write'].update({'source': 'struct', 'perm_seed': wsave.get('perm_seed'), 'extra': 0,
                            'struct_variant': wsave.get('struct_variant'), 'input_chunk_size': r.choice(gen.chunk_choices(N))})
        bump('fastpath-' + (wsave.get('struct_variant') or 'packed'))
        if wsave.get('perm_seed') is not None:
            bump('fastpath-permuted')
        compare(ref, sp, 'struct', f"fast:{wsave.get('struct_variant')}:{wsave.get('perm_seed') is not None}", True, decode=True)
        if N > 1:
            a = r.randrange(0, N)
            b = r.choice([r.randrange(a + 1, N + 1), None])
            refw = run(presliced(base, a, b))
            spw = copy.deepcopy(sp)
            spw['write'].update({'from_idx': a, 'to_idx': b})
            bump('window-struct')
            compare(refw, spw, 'struct:window', f"fast-window:{wsave.get('struct_variant')}", True, decode=True)
        # one data object, several writes: sources are equivalent however often the caller re-uses them
        from vf import spec as S
        spd = copy.deepcopy(sp)
        b = S.build(spd)
        if b.error is None:
            data_obj = S.make_write_data(spd, b, harness.scratch_dir())
            outs = []
            for rep in range(3):
                path = harness.fresh_path()
                w_ = S.do_write(spd, S.build(spd), path, harness.scratch_dir(), data=data_obj)
                outs.append(open(path, 'rb').read() if w_[0] == 'ok' else None)
            bump('same-data-object-reused')
            evals += 1
            sigs.append(f"reuse:{wsave.get('struct_variant')}")
            if ref.data is not None and any(o != ref.data for o in outs):
                k_ = next(i for i, o in enumerate(outs) if o != ref.data)
                vio.append({'prop': PROP, 'kind': 'bytes-differ', 'mech': 'bytes:struct:reused-data-object',
                            'detail': f'write #{k_ + 1} from the same structured array differs from the inline reference '
                                      f'(first write {"equal" if outs[0] == ref.data else "differs"})', 'variant': spd['write']})
        sample = {'kind': 'struct fast path', 'rows': N, 'variant': wsave.get('struct_variant'), 'permuted': wsave.get('perm_seed') is not None}
    elif case['kind'] == 'int-cast':
        r = gen.rng(seed, PROP, case['stratum'], case['index'])
        base = gen.int_cast_spec(r, sources=('inline',), nframes=1, layouts=('C', 'strided'))
        N = [o for o in base['ops'] if o['op'] == 'channel'][0]['data']['shape'][0]
        base['write'] = {'source': 'inline', 'output_chunk_size': 2 ** 16}
        ref = run(base)
        bump('int-cast-out-of-range')
        for src in ['dict', 'struct', 'hdf5']:
            sp = copy.deepcopy(base)
            sp['write'].update({'source': src, 'perm_seed': None, 'extra': 0, 'input_chunk_size': r.choice(gen.chunk_choices(N))})
            compare(ref, sp, src, f'int-cast:{src}', True, decode=True)
        sample = {'kind': 'int cast', 'rows': N, 'channels': [(o['name'], o['data']['dtype'], o.get('cast_dtype')) for o in base['ops'] if o['op'] == 'channel'][:6]}
    elif case['kind'] == 'np-window':
        r = gen.rng(seed, PROP, case['stratum'], case['index'])
        N = r.choice([187, 255, 256, 300])
        a = r.choice([100, 127, 128, 200, N - 50])
        b = r.choice([N, N - 1, a + 87 if a + 87 <= N else N, None])
        fa = r.choice(['uint8', 'int8', 'int16', 'uint16', 'int64', 'intp'])
        fa = fa if np_fits(a, fa) else 'int64'
        ta = r.choice(['int16', 'uint16', 'int64', 'uint8', None])
        ta = ta if (b is None or ta is None or np_fits(b, ta)) else 'int64'
        base = gen.frame_spec(r, mx=8192, rows=N, nch=2, sources=('inline',), layouts=('C',), max_width=3, casts=False)
        base['write'] = {'source': 'inline', 'output_chunk_size': 2 ** 16}
        ref = run(presliced(base, a, b))
        bump('window-bounds-as-numpy-integers')
        for src in SOURCES:
            sp = copy.deepcopy(base)
            sp['write'].update({'source': src, 'from_idx': a, 'to_idx': b, 'idx_as': [fa, ta],
                                'input_chunk_size': r.choice([None, 60, 70, 1, N])})
            compare(ref, sp, ('%s-window' % src if src == 'inline' else src + ':window'), f'{src}:npwin:{fa}:{ta}:{sp["write"]["input_chunk_size"]}', True, decode=True)
        sample = {'kind': 'window bounds as numpy integers', 'rows': N, 'window': [a, b], 'types': [fa, ta]}
    elif case['kind'] == 'signed-zeros':
        r = gen.rng(seed, PROP, case['stratum'], case['index'])
        N = r.choice([2, 3, 5, 8, 9, 16, 17, 33])
        k0 = r.randrange(1, N)
        zs = [-0.0] * k0 + [0.0] * (N - k0)
        if r.random() < 0.5:
            zs.reverse()
        if r.random() < 0.3:
            r.shuffle(zs)
        dt = r.choice(['<f8', '<f4', '>f8'])
        base = gen.base_spec(r.choice([256, 8192]))
        base['ops'].append(gen.origin_op())
        base['ops'].append(gen.channel_op('DEPTH', dt, (N,), fill={'kind': 'seq', 'values': zs}))
        base['ops'].append(gen.channel_op('Y', r.choice(['<f8', '<i2']), (N,), fill={'kind': 'pos', 'tag': 2}))
        if r.random() < 0.5:
            base['ops'].append(gen.channel_op('Z', '<u1', (N, 3), fill={'kind': 'pos', 'tag': 3}))
        chans_ = [i for i, o in enumerate(base['ops']) if o['op'] == 'channel']
        base['ops'].append(gen.frame_op('FR', chans_, index_type='BOREHOLE-DEPTH'))
        base['write'] = {'source': 'inline', 'output_chunk_size': 2 ** 16}
        ref = run(base)
        bump('index-of-signed-zeros')
        for src in ['dict', 'struct', 'hdf5']:
            sp = copy.deepcopy(base)
            sp['write'].update({'source': src, 'perm_seed': None, 'extra': r.choice([0, 1]), 'input_chunk_size': r.choice(gen.chunk_choices(N)),
                                'struct_variant': r.choice([None, 'aligned', 'view']) if src == 'struct' else None})
            compare(ref, sp, src, f'signed-zeros:{src}:{dt}:{N}', True, decode=True)
        sample = {'kind': 'index of signed zeros', 'rows': N, 'dtype': dt}
    elif case['kind'] == 'float-cast':
        r = gen.rng(seed, PROP, case['stratum'], case['index'])
        base, xi, src_dt, dst, nbad = gen.float_cast_spec(r, sources=('inline',))
        N = base['ops'][xi]['data']['shape'][0]
        win = {k_: base['write'][k_] for k_ in ('from_idx', 'to_idx') if k_ in base['write']}
        base['write'] = dict({'source': 'inline', 'output_chunk_size': 2 ** 16}, **win)
        if win:
            # the reference is what the window MEANS: the same arrays cut to the window beforehand, written without one
            # (a value outside the window that the cast cannot take has nothing to do with the rows selected)
            ref = run(presliced(base, win.get('from_idx') or 0, win.get('to_idx')))
            bump('float-cast-window-vs-presliced')
        else:
            ref = run(base)
        bump('float-cast-out-of-range')
        bump('float-cast-reference-' + ('written' if ref.data is not None else 'refused'))
        for src in ['inline', 'dict', 'struct', 'hdf5']:
            sp = copy.deepcopy(base)
            sp['write'].update({'source': src, 'perm_seed': None, 'extra': r.choice([0, 1]), 'input_chunk_size': r.choice(gen.chunk_choices(N)),
                                'struct_variant': r.choice([None, 'aligned', 'view']) if src == 'struct' else None})
            compare(ref, sp, src, f'float-cast:{src}:{dst}:{"refused" if ref.data is None else "written"}', True, decode=True)
        sample = {'kind': 'float cast', 'rows': N, 'cast': [src_dt, dst], 'out-of-range values': nbad}
    elif case['kind'] == 'consecutive':
        from vf import spec as S
        r = gen.rng(seed, PROP, case['stratum'], case['index'])
        N = r.choice([6, 9, 20])
        base = gen.frame_spec(r, rows=N, sources=('inline', 'dict', 'struct', 'hdf5'), layouts=('C', 'strided'), index=r.random() < 0.8,
                              nframes=1, mx=r.choice([256, 8192]), max_width=40, fills=('pos',), dtypes=('float64', 'float32', 'uint16', 'int32'))
        src = base['write']['source']
        chans = [o for o in base['ops'] if o['op'] == 'channel']
        fr = [o for o in base['ops'] if o['op'] == 'frame'][0]
        if fr['attrs'].get('index_type') is not None:
            chans[0]['data']['fill'] = {'kind': 'lin', 'start': r.choice([0.0, 100.0, -5.0]), 'step': r.choice([0.5, 1, 2])}
            if r.random() < 0.7:
                chans[0]['attrs']['units'] = r.choice(['m', 'ft', 's'])
                bump('index-channel-with-units')
        base['write'] = {'source': src, 'output_chunk_size': 2 ** 16, 'perm_seed': base['write'].get('perm_seed'), 'extra': 0,
                         'struct_variant': base['write'].get('struct_variant')}
        cuts = sorted(r.sample(range(1, N), r.choice([1, 2, 3])))
        wins = list(zip([0] + cuts, cuts + [None]))
        if r.random() < 0.5:
            r.shuffle(wins)
        b = S.build(base)
        data_obj = S.make_write_data(base, b, harness.scratch_dir()) if b.error is None else None
        bump('consecutive-windows-one-file')
        for a, z in wins:
            refw = run(presliced(base, a, z))
            path = harness.fresh_path()
            ics = r.choice(gen.chunk_choices(max(1, (z or N) - a)))
            w_ = S.do_write(base, b, path, harness.scratch_dir(), data=data_obj, from_idx=a, to_idx=z, input_chunk_size=ics)
            out = open(path, 'rb').read() if w_[0] == 'ok' else None
            evals += 1
            bump('window-' + src)
            sigs.append(f'consecutive:{src}:{len(wins)}')
            if (out is None) != (refw.data is None):
                vio.append({'prop': PROP, 'kind': 'source-outcome-differs', 'mech': 'outcome:consecutive-windows:' + src,
                            'detail': f'window [{a},{z}) of one DLISFile ({src}): {w_[:3]}; fresh pre-sliced write: {refw.wout[:3]}'})
            elif out is not None and out != refw.data:
                d = next((i for i in range(min(len(out), len(refw.data))) if out[i] != refw.data[i]), min(len(out), len(refw.data)))
                vio.append({'prop': PROP, 'kind': 'bytes-differ', 'mech': 'bytes:consecutive-windows:' + src,
                            'detail': f'window [{a},{z}) written from one DLISFile (windows {wins}, {src} source) differs from the fresh '
                                      f'write of the pre-sliced arrays at offset {d} (sizes {len(out)} / {len(refw.data)})'})
        sample = {'kind': 'consecutive windows', 'rows': N, 'source': src, 'windows': wins}
    elif case['kind'] == 'permuted-names':
        r = gen.rng(seed, PROP, case['stratum'], case['index'])
        N = r.choice([3, 5, 8])
        nch = r.choice([2, 3, 4])
        dt = gen.dtstr(r.choice(['float64', 'float32', 'int32', 'uint16']), r.choice('<='))
        shape = (N,) if r.random() < 0.6 else (N, r.choice([2, 3]))
        base = gen.base_spec(r.choice([256, 8192]))
        base['ops'].append(gen.origin_op())
        names = [f'CH{j}' for j in range(nch)]
        perm = names[:]
        while perm == names:
            r.shuffle(perm)
        if nch > 2 and r.random() < 0.5:
            perm[-1], names_last = perm[-1], None       # (some entries may stay in place)
        for j, nm in enumerate(names):
            # channel `nm` takes the data set called perm[j]; the inline reference gets that data set's content directly
            src_j = names.index(perm[j])
            base['ops'].append(gen.channel_op(nm, dt, shape, fill={'kind': 'pos', 'tag': 10 + src_j}, dataset_name=perm[j]))
        base['ops'].append(gen.frame_op('F', list(range(1, nch + 1))))
        base['write'] = {'source': 'inline', 'output_chunk_size': 2 ** 16}
        ref = run(base)
        bump('permuted-dataset-names')
        if ref.data is not None:
            evals += 1
            oracle.check_frames(ref)
            for v in ref.by_prop('C03'):
                vio.append({'prop': PROP, 'kind': 'mapping-ignored', 'mech': 'rows:inline:' + v.mech, 'detail': v.detail, 'variant': base['write']})
        for src in ['dict', 'struct', 'hdf5']:
            sp = copy.deepcopy(base)
            sp['write'].update({'source': src, 'perm_seed': None, 'extra': 0, 'input_chunk_size': r.choice(gen.chunk_choices(N)),
                                'sort_fields': True})
            compare(ref, sp, src, f'permuted-names:{src}', True, decode=True)
        sample = {'kind': 'permuted dataset names', 'rows': N, 'mapping': dict(zip(names, perm)), 'dtype': dt, 'shape': shape}
    elif case['kind'] == 'repeated':
        r = gen.rng(seed, PROP, case['stratum'], case['index'])
        base = gen.frame_spec(r, sources=('inline',), nframes=r.choice([2, 2, 3]), layouts=('C', 'strided'), dataset_names=False,
                              mx=r.choice([512, 8192]), max_width=40)
        frames = [o for o in base['ops'] if o['op'] == 'frame']
        per_set = r.random() < 0.6        # the channels of each frame in a channel set of their own
        first = [base['ops'][c['$ref']]['name'] for c in frames[0]['attrs']['channels']['$tuple']] \
            if isinstance(frames[0]['attrs']['channels'], dict) else [base['ops'][c['$ref']]['name'] for c in frames[0]['attrs']['channels']]
        nrep = 0
        for fi, fo in enumerate(frames):
            chs = fo['attrs']['channels']['$tuple'] if isinstance(fo['attrs']['channels'], dict) else fo['attrs']['channels']
            for ci, c in enumerate(chs):
                co = base['ops'][c['$ref']]
                if fi > 0 and ci < len(first) and r.random() < 0.8:
                    co['name'] = first[ci]
                    nrep += 1
                if per_set:
                    co['set_name'] = f'CHANNELS-OF-FRAME-{fi}'
        N = [o for o in base['ops'] if o['op'] == 'channel'][0]['data']['shape'][0]
        base['write'] = {'source': 'inline', 'output_chunk_size': 2 ** 16}
        ref = run(base)
        if nrep:
            bump('repeated-channel-names')
            if per_set:
                bump('repeated-channel-names-across-sets')
        if ref.data is not None:
            # the reference itself: every frame carries the data of its own channels
            evals += 1
            oracle.check_frames(ref)
            bump('frames-decoded', ref.obs.get('frame-checked', 0))
            for v in ref.by_prop('C03'):
                vio.append({'prop': PROP, 'kind': 'channel-data-mixed-up', 'mech': 'rows:inline:' + v.mech, 'detail': v.detail,
                            'variant': base['write']})
            names = sorted(h.dataset_name for i, h in ref.built.handles.items() if base['ops'][i]['op'] == 'channel')
            if len(set(names)) != len(names):
                vio.append({'prop': PROP, 'kind': 'dataset-name-shared', 'mech': 'dataset-name-shared',
                            'detail': f'channels of one logical file share a dataset name: {names}', 'variant': base['write']})
        for src in ['dict', 'struct', 'hdf5']:
            sp = copy.deepcopy(base)
            sp['write'].update({'source': src, 'perm_seed': r.choice([None, r.randrange(1000)]), 'extra': 0,
                                'input_chunk_size': r.choice(gen.chunk_choices(N))})
            compare(ref, sp, src, f'repeated:{src}:{per_set}:{nrep}', True, decode=True)
        sample = {'kind': 'repeated names', 'rows': N, 'per_set': per_set,
                  'channels': [(o['name'], o.get('set_name')) for o in base['ops'] if o['op'] == 'channel'][:8]}
    else:
        r = gen.rng(seed, PROP, case['stratum'], case['index'])
        base = gen.frame_spec(r, sources=('inline',), nframes=r.choice([1, 1, 2]), casts=r.random() < 0.2,
                              layouts=('C', 'F', 'strided', 'view'))
        N = [o for o in base['ops'] if o['op'] == 'channel'][0]['data']['shape'][0]
        base['write'] = {'source': 'inline', 'output_chunk_size': 2 ** 16}
        ref = run(base)
        for src in ['dict', 'struct', 'hdf5']:
            sp = copy.deepcopy(base)
            perm = r.choice([None, r.randrange(1000)])
            extra = r.choice([0, 0, 2])
            sp['write'].update({'source': src, 'perm_seed': perm, 'extra': extra,
                                'input_chunk_size': r.choice(gen.chunk_choices(N))})
            if r.random() < 0.3:
                # file names (output, HDF5 source) given as pathlib.Path objects, other spellings of the HDF5 extension
                sp['write']['paths_as'] = 'Path'
                sp['write']['h5name'] = r.choice(['data.h5', 'data.hdf5', 'DATA.H5', 'my.data.HDF5'])
                bump('paths-as-Path')
            if perm is not None:
                bump('permuted')
            if extra:
                bump('extra-datasets')
            if any(o.get('dataset_name') for o in sp['ops'] if o['op'] == 'channel'):
                bump('mapping')
            compare(ref, sp, src, f'{src}:{perm is not None}:{extra}', perm is not None or extra > 0)
        if N > 1:
            a = r.randrange(0, N)
            b = r.choice([r.randrange(a + 1, N + 1), None])
            refw = run(presliced(base, a, b))
            for src in SOURCES:
                sp = copy.deepcopy(base)
                sp['write'].update({'source': src, 'from_idx': a, 'to_idx': b,
                                    'input_chunk_size': r.choice(gen.chunk_choices(max(1, (b or N) - a))),
                                    'perm_seed': r.choice([None, 5]) if src != 'inline' else None})
                bump('window-' + src)
                if b is None:
                    bump('open-ended')
                compare(refw, sp, ('inline-window' if src == 'inline' else src + ':window'), f'{src}:window', True, decode=True)
        sample = {'kind': 'random', 'rows': N, 'channels': [(o['name'], o['data']['dtype'], o['data']['shape'],
                                                              o.get('dataset_name')) for o in base['ops'] if o['op'] == 'channel'][:6]}
    return {'evals': evals, 'violations': vio, 'obs': obs, 'sigs': sorted(set(sigs)), 'sample': sample}
