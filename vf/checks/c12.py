"""C12 -- fail-closed: a write either raises or yields a faithful, well-formed file (DESIGN.md section 5, C12)."""
from __future__ import annotations
import copy
from vf import gen, schema

PROP = 'C12'
MUST_RAISE = [
    'rows-shorter', 'rows-longer', 'rows-single-broadcast', 'dtype-int64', 'dtype-uint64', 'dtype-float16', 'dtype-bool',
    'dtype-complex', 'dtype-object', 'dtype-str', 'data-3d', 'missing-dataset', 'name-256', 'name-300', 'set-name-256',
    'ident-value-256', 'units-256', 'label-like-ident-256', 'non-ascii-name', 'non-ascii-text', 'non-ascii-units',
    'non-ascii-set-identifier', 'non-ascii-header-id', 'non-ascii-payload', 'non-ascii-set-name', 'unorm-70000',
    'unorm-negative', 'uvari-2^30', 'uvari-negative', 'dimension-negative', 'no-origin', 'no-channels', 'no-frames',
    'origin-ref-2^30', 'origin-ref-negative', 'copy-number-256', 'header-id-66', 'header-seq-0', 'header-seq-1e10',
    'sul-id-61', 'sul-seq-10000', 'dtime-year-1899', 'dtime-year-2156', 'status-2', 'frame-without-channels',
    'zero-rows', 'record-length-odd', 'record-length-18', 'record-length-16386', 'int-attr-fraction', 'encrypted-2',
    'window-empty', 'window-beyond', 'slong-2^31', 'list-to-single-valued-attribute', 'sul-seq-not-positive',
    'sul-seq-not-an-integer', 'header-seq-not-an-integer', 'header-seq-reassigned-invalid', 'origin-ref-of-no-origin',
    'no-logical-file', 'status-fraction-not-float', 'missing-dataset-after-earlier-write', 'partial-data-after-earlier-write',
    'float-cast-out-of-range', 'origin-reference-shared-by-two-origins', 'float-cast-just-outside-range',
    'reference-to-object-of-another-logical-file',
]
FRINGE = ['empty-value-list', 'empty-text', 'empty-payload', 'single-row', 'width-1', 'origin-ref-0', 'name-255', 'ident-255',
          'text-20000', 'units-255', 'many-values-300', 'set-name-255', 'header-id-65', 'sul-id-60', 'empty-ident',
          'copy-number-255', 'dtime-1900', 'dtime-2155', 'nan-float-attr', 'inf-float-attr', 'record-length-20',
          'frame-same-channel-name-twice', 'window-to-idx-beyond', 'window-from-idx-negative', 'float-cast-just-inside-range']
META = {
    'level': 'exploration',
    'rule': ('one evaluation = one invalid or fringe specification (one class of the catalogue injected into an otherwise random '
             'valid specification) whose outcome is classified: raised -> fine; returned -> the file must pass the strict reader '
             'and equal the expected model, and for an unrepresentable input returning is itself the violation; signature = '
             '(class, injection site, outcome); all are non-trivial'),
    'required_obs': {'quick': ['class-' + c for c in MUST_RAISE + FRINGE] + ['outcome-raised', 'outcome-returned']},
    'assumptions': ['"raised" includes a rejected add_* call or assignment; any exception type is acceptable',
                    'ASCII text longer than the 2^30-1 UVARI limit is not generated'],
}
META['required_obs']['thorough'] = META['required_obs']['quick']


def cases(tier, seed):
    i = 0
    reps = 2 if tier == 'quick' else 25
    for c in MUST_RAISE + FRINGE:
        nrep = reps * (4 if c.startswith('window-') or c.startswith('list-to') or c.startswith('float-cast') else 1)   # (window classes: several sources x chunk sizes)
        if c == 'reference-to-object-of-another-logical-file':
            nrep = 8 * (1 if tier == 'quick' else 4)
        if c.startswith('float-cast-just-'):
            # enumerated: every (source float type, target integer type, value at the very edge of the target's range)
            nrep = sum(1 for x in gen.float_cast_boundaries() if x[3] == c.endswith('outside-range')) * (1 if tier == 'quick' else 2)
        for j in range(nrep):
            yield {'stratum': 'catalogue', 'index': i, 'kind': 'class', 'class': c, 'j': j}
            i += 1


def inject(sp, c, r, k=0):
    """Mutate the valid spec `sp` into class c.  Returns a site description."""
    ops = sp['ops']
    chans = [i for i, o in enumerate(ops) if o['op'] == 'channel']
    frames = [i for i, o in enumerate(ops) if o['op'] == 'frame']
    fch = [x['$ref'] for x in ops[frames[0]]['attrs']['channels']['$tuple']]
    objs = [i for i, o in enumerate(ops) if o['op'] in schema.TYPES and o['op'] not in ('origin', 'channel', 'frame')]
    n = ops[chans[0]]['data']['shape'][0]

    def some_obj(types=None):
        pool = [i for i in objs if types is None or ops[i]['op'] in types]
        if not pool:
            t = (types or ['zone'])[0]
            ops.append({'op': t, 'name': 'INJ-' + t[:3].upper(), 'attrs': {}})
            return len(ops) - 1
        return r.choice(pool)

    def add(op):
        ops.append(op)
        return len(ops) - 1
    L = lambda k: ''.join(gen.NAME_CHARS_HC[(j * 7 + k) % 38] for j in range(k))
    if c in ('rows-shorter', 'rows-longer', 'rows-single-broadcast'):
        if len(fch) < 2:
            nm = 'EXTRA-CH'
            ops.insert(frames[0], gen.channel_op(nm, '<f4', (n,), fill={'kind': 'pos', 'tag': 41}))
            # inserting before the frame op shifts indices >= frames[0]; rebuild references
            _shift_refs(ops, frames[0])
            frames = [i for i, o in enumerate(ops) if o['op'] == 'frame']
            ops[frames[0]]['attrs']['channels']['$tuple'].append({'$ref': frames[0] - 1})
            fch = [x['$ref'] for x in ops[frames[0]]['attrs']['channels']['$tuple']]
        tgt = fch[-1]
        base_n = max(n, 2) if c != 'rows-single-broadcast' else n
        if n < 2:
            for i in fch:
                ops[i]['data']['shape'][0] = 3
            n = 3
        shape = ops[tgt]['data']['shape']
        shape[0] = {'rows-shorter': n - 1, 'rows-longer': n + 2, 'rows-single-broadcast': 1}[c]
        return f'channel #{tgt}'
    if c.startswith('dtype-'):
        dt = {'int64': '<i8', 'uint64': '<u8', 'float16': '<f2', 'bool': '|b1', 'complex': '<c8', 'object': 'O', 'str': '<U4'}[c[6:]]
        ops[fch[-1]]['data'] = {'raw': dt, 'shape': ops[fch[-1]]['data']['shape']}
        return 'channel data dtype'
    if c == 'data-3d':
        ops[fch[-1]]['data']['shape'] = [n, 2, 2]
        return 'channel data'
    if c == 'reference-to-object-of-another-logical-file':
        # a second logical file with objects of its own; an attribute of THIS file's object refers to one of them (through
        # every kind of reference attribute, incl. the channel's SOURCE, which takes an object of any type)
        sp['lfs'].append({'fh_id': 'OTHER-LF'})
        for o in ops:
            if o['op'] in schema.TYPES and o.get('set_name') is None:
                o['set_name'] = 'FIRST'
        b0 = len(ops)
        ops.append(gen.origin_op('OTHER-ORIGIN', lf=1, fsn=2)); ops[-1]['set_name'] = 'OTHER'
        ops.append(gen.channel_op('OTHER-CH', '<f8', (n,), lf=1, fill={'kind': 'pos', 'tag': 9})); ops[-1]['set_name'] = 'OTHER'
        ops.append(gen.frame_op('OTHER-FR', [b0 + 1], lf=1)); ops[-1]['set_name'] = 'OTHER'
        for t in ('zone', 'axis', 'equipment', 'tool'):
            ops.append({'op': t, 'lf': 1, 'name': 'OTHER-' + t.upper(), 'attrs': {}, 'set_name': 'OTHER'})
        zi, ai, ei, ti = b0 + 3, b0 + 4, b0 + 5, b0 + 6
        what = ['channel-source-equipment', 'channel-source-tool', 'channel-source-channel', 'channel-axis', 'parameter-zones',
                'computation-source', 'group-object-list', 'tool-parts'][k % 8]
        if what.startswith('channel-source'):
            tgt = {'equipment': ei, 'tool': ti, 'channel': b0 + 1}[what.split('-')[-1]]
            ops.append({'op': 'assign', 'lf': 0, 'target': fch[-1], 'target_op': 'channel', 'kw': 'source', 'part': 'value', 'value': {'$ref': tgt}})
        elif what == 'channel-axis':
            ops.append({'op': 'assign', 'lf': 0, 'target': fch[-1], 'target_op': 'channel', 'kw': 'axis', 'part': 'value', 'value': [{'$ref': ai}]})
        elif what == 'parameter-zones':
            ops.append({'op': 'parameter', 'lf': 0, 'name': 'INJ-P', 'set_name': 'FIRST', 'attrs': {'zones': [{'$ref': zi}], 'values': [1.0]}})
        elif what == 'computation-source':
            ops.append({'op': 'computation', 'lf': 0, 'name': 'INJ-C', 'set_name': 'FIRST', 'attrs': {'source': {'$ref': ti}}})
        elif what == 'group-object-list':
            ops.append({'op': 'group', 'lf': 0, 'name': 'INJ-G', 'set_name': 'FIRST', 'attrs': {'object_list': [{'$ref': zi}]}})
        else:
            ops.append({'op': 'tool', 'lf': 0, 'name': 'INJ-T', 'set_name': 'FIRST', 'attrs': {'parts': [{'$ref': ei}]}})
        return what
    if c.startswith('float-cast-just-'):
        # the value sits exactly at the edge of the cast dtype's range, in a source type that holds it exactly
        combos = [x for x in gen.float_cast_boundaries() if x[3] == c.endswith('outside-range')]
        src, dst, v, _bad = combos[k % len(combos)]
        tgt = fch[-1] if len(fch) > 1 or (k // len(combos)) % 2 == 0 else fch[0]
        shape = ops[tgt]['data']['shape']
        size = 1
        for d_ in shape:
            size *= d_
        ops[tgt]['data'] = {'dtype': src, 'shape': shape, 'layout': r.choice(['C', 'strided']),
                            'fill': {'kind': 'oor', 'bad_at': [], 'bad_values': [[r.randrange(size), v]]}}
        ops[tgt]['cast_dtype'] = {'$dtype': dst, 'as': 'type'}
        sp['write']['input_chunk_size'] = r.choice([None, 1, 2, 3])
        sp['write'].pop('from_idx', None)
        sp['write'].pop('to_idx', None)
        sp['write']['source'] = r.choice(['inline', 'dict', 'struct', 'hdf5'])
        return f'channel data {src} {v!r} cast to {dst} ({sp["write"]["source"]} source)'
    if c == 'float-cast-out-of-range':
        # a float the declared cast dtype cannot hold (of moderate size: numpy converts it without any floating-point flag)
        from vf.spec import OOR_VALUES
        dst, v = r.choice([('uint8', 300.0), ('uint8', -1.0), ('int8', -129.0), ('uint16', 70000.0), ('int16', -40000.0),
                           ('uint32', 5e9), ('uint32', -1.0), ('uint32', 4294967296.0), ('int32', 2147483648.0), ('float32', 1e39)])
        tgt = fch[-1] if len(fch) > 1 or r.random() < 0.5 else fch[0]
        shape = ops[tgt]['data']['shape']
        size = 1
        for d_ in shape:
            size *= d_
        ops[tgt]['data'] = {'dtype': r.choice(['<f8', '>f8']), 'shape': shape, 'layout': r.choice(['C', 'strided']),
                            'fill': {'kind': 'oor', 'bad_at': [[r.randrange(size), OOR_VALUES.index(v)]]}}
        ops[tgt]['cast_dtype'] = {'$dtype': dst, 'as': 'type'}
        sp['write']['input_chunk_size'] = r.choice([None, 1, 2, 3])
        sp['write'].pop('from_idx', None)
        sp['write'].pop('to_idx', None)
        return f'channel data cast to {dst} ({sp["write"].get("source", "inline")} source)'
    if c in ('missing-dataset-after-earlier-write', 'partial-data-after-earlier-write'):
        # history: a first write is given all data through write(data=dict); a later write of the same DLISFile is not
        sp['write']['source'] = 'dict'
        sp['write']['history'] = c
        return 'second write'
    if c == 'missing-dataset':
        sp['write']['source'] = 'dict'
        sp['write']['drop_key'] = ops[fch[-1]].get('dataset_name') or ops[fch[-1]]['name']
        return 'dict source'
    if c in ('name-256', 'name-300', 'name-255'):
        i = r.choice(objs + chans + frames) if objs else r.choice(chans)
        ops[i]['name'] = L(int(c[5:]))
        return f'{ops[i]["op"]} name'
    if c in ('set-name-256', 'set-name-255'):
        # (an object whose name is used once: moving one of two same-named objects to another set is KF-C07's input class)
        uniq = [i for i in objs if sum(1 for j in objs if ops[j]['op'] == ops[i]['op'] and ops[j]['name'] == ops[i]['name']) == 1]
        i = r.choice(uniq) if uniq else some_obj(['comment'])
        if not uniq:
            ops[i]['name'] = 'UNIQUE-NAME-FOR-SET'
        ops[i]['set_name'] = L(int(c[9:]))
        return f'{ops[i]["op"]} set name'
    if c in ('ident-value-256', 'ident-255', 'empty-ident'):
        i = add({'op': 'no_format', 'name': 'NF-INJ', 'attrs': {'consumer_name': {'ident-value-256': L(256), 'ident-255': L(255), 'empty-ident': ''}[c]}})
        return 'no_format consumer_name'
    if c in ('units-256', 'units-255'):
        add({'op': 'equipment', 'name': 'EQ-INJ', 'attrs': {'height': {'$setup': {'value': 2.5, 'units': L(int(c[6:]))}, 'route': 'dict'}}})
        return 'equipment height units'
    if c == 'label-like-ident-256':
        add({'op': 'calibration_coefficient', 'name': 'CC-INJ', 'attrs': {'label': L(256)}})
        return 'calibration coefficient label'
    if c == 'non-ascii-name':
        i = some_obj()
        ops[i]['name'] = 'ZÖNE-' + str(i)
        return f'{ops[i]["op"]} name'
    if c == 'non-ascii-text':
        add({'op': 'comment', 'name': 'CM-INJ', 'attrs': {'text': ['plain', 'naïve café']}})
        return 'comment text'
    if c == 'non-ascii-units':
        add({'op': 'equipment', 'name': 'EQ-INJ', 'attrs': {'weight': {'$setup': {'value': 2.5, 'units': '°C'}, 'route': 'dict'}}})
        return 'units'
    if c == 'non-ascii-set-identifier':
        sp['sul']['set_identifier'] = 'SÉT'
        return 'sul'
    if c == 'non-ascii-header-id':
        sp['lfs'][0]['fh_id'] = 'HÉADER'
        return 'header'
    if c == 'non-ascii-payload':
        k = add({'op': 'no_format', 'name': 'NF-INJ', 'attrs': {}})
        ops.append({'op': 'nf_data', 'target': k, 'payload': 'données', 'as': 'str'})
        return 'no-format text payload'
    if c == 'non-ascii-set-name':
        i = some_obj()
        ops[i]['set_name'] = 'SÊT'
        return 'set name'
    if c in ('unorm-70000', 'unorm-negative'):
        o = next(o for o in ops if o['op'] == 'origin')
        o['attrs']['run_number'] = 70000 if c == 'unorm-70000' else -1
        return 'origin run_number'
    if c in ('uvari-2^30', 'uvari-negative'):
        o = next(o for o in ops if o['op'] == 'origin')
        o['attrs']['file_number'] = 2 ** 30 if c == 'uvari-2^30' else -5
        return 'origin file_number'
    if c == 'slong-2^31':
        add({'op': 'parameter', 'name': 'P-INJ', 'attrs': {'values': [2 ** 31]}})
        return 'parameter values'
    if c == 'dimension-negative':
        add({'op': 'parameter', 'name': 'P-INJ', 'attrs': {'dimension': [-1]}})
        return 'parameter dimension'
    if c == 'no-origin':
        sp['ops'] = [o for o in ops if o['op'] != 'origin']
        _reindex_after_removal(sp, ops)
        return 'spec'
    if c == 'no-channels':
        sp['ops'] = [o for o in ops if o['op'] not in ('channel', 'frame') and not _refs_any(o, chans + frames)]
        _reindex_after_removal(sp, ops)
        return 'spec'
    if c == 'no-frames':
        sp['ops'] = [o for o in ops if o['op'] != 'frame' and not _refs_any(o, frames)]
        _reindex_after_removal(sp, ops)
        return 'spec'
    if c == 'origin-reference-shared-by-two-origins':
        # a second ORIGIN object is given the reference of the first through the setter (add_origin itself refuses that)
        first = next(i for i, o in enumerate(ops) if o['op'] == 'origin')
        k_ = add(gen.origin_op('ORIGIN-INJ', fsn=5, lf=ops[first].get('lf', 0)))
        ops.append({'op': 'setattr', 'target': k_, 'field': 'origin_reference', 'value': {'$origin_of': first}})
        return 'second origin'
    if c == 'origin-ref-of-no-origin':
        # an explicit origin reference that no ORIGIN object of the logical file carries (at creation, or assigned later)
        i = some_obj()
        if r.random() < 0.5:
            ops[i]['origin_reference'] = r.choice([77, 16000])
        else:
            ops.append({'op': 'setattr', 'target': i, 'field': 'origin_reference', 'value': r.choice([77, 16000])})
        return f'{ops[i]["op"]} origin_reference'
    if c in ('origin-ref-2^30', 'origin-ref-negative', 'origin-ref-0'):
        i = some_obj()
        ops[i]['origin_reference'] = {'origin-ref-2^30': 2 ** 30, 'origin-ref-negative': -1, 'origin-ref-0': 0}[c]
        return f'{ops[i]["op"]} origin_reference'
    if c in ('copy-number-256', 'copy-number-255'):
        k = 257 if c == 'copy-number-256' else 256
        for j in range(k):
            ops.append({'op': 'zone', 'name': 'SAME-NAME', 'attrs': {}})
        return 'zone copies'
    if c in ('header-id-66', 'header-id-65'):
        sp['lfs'][0]['fh_id'] = L(int(c[10:]))
        return 'header id'
    if c in ('header-seq-0', 'header-seq-1e10'):
        sp['lfs'][0]['fh_sequence_number'] = 0 if c == 'header-seq-0' else 10 ** 10
        return 'header sequence number'
    if c in ('sul-id-61', 'sul-id-60'):
        sp['sul']['set_identifier'] = L(int(c[7:]))
        return 'sul id'
    if c == 'no-logical-file':
        sp['lfs'] = []
        sp['ops'] = []
        return 'spec'
    if c == 'status-fraction-not-float':
        v = r.choice([{'$np': ['float32', 0.5]}, {'$np': ['float32', 1.9]}, {'$np': ['float64', 0.25]}])
        t, kw = r.choice([('equipment', 'status'), ('tool', 'status')])
        add({'op': t, 'name': 'ST-INJ', 'attrs': {kw: v}})
        return f'{t} status'
    if c == 'sul-seq-not-positive':
        sp['sul']['sequence_number'] = r.choice([0, -1, -999])
        sp['sul']['as_object'] = r.random() < 0.5
        return 'sul sequence number'
    if c == 'sul-seq-not-an-integer':
        sp['sul']['sequence_number'] = r.choice([True, None, 1.5, 'AB', ''])
        sp['sul']['as_object'] = r.random() < 0.5
        return 'sul sequence number'
    if c == 'header-seq-not-an-integer':
        sp['lfs'][0]['fh_sequence_number'] = r.choice([True, 2.0, '7'])
        return 'header sequence number'
    if c == 'header-seq-reassigned-invalid':
        ops.append({'op': 'set_header', 'lf': 0, 'field': 'sequence_number', 'value': r.choice([-3, 0, True, 10 ** 10])})
        return 'header sequence number (re-assigned)'
    if c == 'sul-seq-10000':
        sp['sul']['sequence_number'] = 10000
        return 'sul sequence number'
    if c.startswith('dtime-'):
        y = {'dtime-year-1899': 1899, 'dtime-year-2156': 2156, 'dtime-1900': 1900, 'dtime-2155': 2155}[c]
        add({'op': 'zone', 'name': 'Z-INJ', 'attrs': {'domain': 'TIME', 'maximum': {'$dt': [y, 6, 15, 12, 0, 0, 0], 'tz': 0}}})
        return 'zone maximum'
    if c == 'status-2':
        add({'op': 'equipment', 'name': 'EQ-INJ', 'attrs': {'status': 2}})
        return 'equipment status'
    if c == 'encrypted-2':
        ops[frames[0]]['attrs']['encrypted'] = 2
        return 'frame encrypted'
    if c == 'frame-without-channels':
        ops[frames[0]]['attrs']['channels'] = {'$tuple': []}
        return 'frame channels'
    if c == 'zero-rows':
        for i in chans:
            ops[i]['data']['shape'][0] = 0
        return 'data'
    if c.startswith('record-length-'):
        sp['sul']['max_record_length'] = {'odd': 8191, '18': 18, '16386': 16386, '20': 20}[c[14:]]
        return 'sul'
    if c == 'int-attr-fraction':
        add({'op': 'calibration_measurement', 'name': 'CM-INJ', 'attrs': {'sample_count': 2.5}})
        return 'sample_count'
    if c == 'list-to-single-valued-attribute':
        # two values for an attribute that holds one (identifier-valued attributes have no converter to refuse them)
        t, kw, vals = r.choice([('origin', 'file_type', ['PLAYBACK', 'FIELD']), ('origin', 'file_set_name', ['SET-A', 'SET-B']),
                                ('origin', 'name_space_name', ['NS1', 'NS2']), ('calibration', 'method', ['M1', 'M2']),
                                ('frame', 'direction', ['INCREASING', 'DECREASING']), ('message', 'message_type', ['T1', 'T2']),
                                ('no_format', 'consumer_name', ['C1', 'C2']), ('zone', 'description', ['d1', 'd2']),
                                ('equipment', 'serial_number', ['S1', 'S2']), ('axis', 'axis_id', ['A1', 'A2'])])
        form = r.choice(['list', 'tuple'])
        v = vals if form == 'list' else {'$tuple': vals}
        if t == 'origin':
            next(o for o in ops if o['op'] == 'origin')['attrs'][kw] = v
        elif t == 'frame':
            ops[frames[0]]['attrs'][kw] = v
        else:
            add({'op': t, 'name': 'LST-INJ', 'attrs': {kw: v}})
        return f'{t} {kw} ({form})'
    if c == 'window-empty':
        sp['write'].update({'from_idx': min(1, n - 1), 'to_idx': min(1, n - 1)})
        return 'write window'
    if c in ('window-to-idx-beyond', 'window-from-idx-negative'):
        # a row window that is not inside the data: refused, or exactly the rows Python slicing would select -- never
        # rows that are not there
        if n < 3:
            for i in chans:
                ops[i]['data']['shape'][0] = 4
            n = 4
        if c == 'window-to-idx-beyond':
            sp['write'].update({'from_idx': r.choice([0, n - 1, n - 2]), 'to_idx': n + r.choice([1, 5])})
        else:
            sp['write'].update({'from_idx': -r.choice([1, 2]), 'to_idx': r.choice([None, n - 1, n])})
        sp['write']['source'] = r.choice(['inline', 'dict', 'struct', 'hdf5'])
        sp['write']['input_chunk_size'] = r.choice([None, None, 1, 2])
        if sp['write']['source'] != 'inline':
            for o in ops:
                o.pop('force_inline', None)
        return 'write window (%s source)' % sp['write']['source']
    if c == 'window-beyond':
        sp['write'].update({'from_idx': n + 3})
        return 'write window'
    # ---- fringe
    if c == 'empty-value-list':
        add({'op': 'comment', 'name': 'CM-INJ', 'attrs': {'text': []}})
        add({'op': 'long_name', 'name': 'LN-INJ', 'attrs': {'conditions': [], 'quantity': 'q'}})
        return 'multivalued attrs'
    if c == 'empty-text':
        add({'op': 'comment', 'name': 'CM-INJ', 'attrs': {'text': ['', 'x', '']}})
        add({'op': 'zone', 'name': 'Z-INJ', 'attrs': {'description': ''}})
        return 'text attrs'
    if c == 'empty-payload':
        k = add({'op': 'no_format', 'name': 'NF-INJ', 'attrs': {}})
        ops.append(gen.nf_data_op(k, b''))
        ops.append(gen.nf_data_op(k, b'', as_='str'))
        return 'no-format'
    if c == 'single-row':
        for i in chans:
            ops[i]['data']['shape'][0] = 1
        return 'data'
    if c == 'width-1':
        ops[fch[-1]]['data']['shape'] = [n, 1]
        return 'data'
    if c == 'text-20000':
        add({'op': 'comment', 'name': 'CM-INJ', 'attrs': {'text': [('abcdefghij' * 2000)]}})
        return 'comment'
    if c == 'many-values-300':
        add({'op': 'calibration_coefficient', 'name': 'CC-INJ', 'attrs': {'coefficients': [float(j) for j in range(300)]}})
        return 'coefficients'
    if c == 'frame-same-channel-name-twice':
        # two different channels with one name in one frame (the data are looked up by channel name)
        if len(fch) < 2:
            ops.insert(frames[0], gen.channel_op('EXTRA-CH', '<f4', (n,), fill={'kind': 'pos', 'tag': 41}))
            _shift_refs(ops, frames[0])
            frames = [i for i, o in enumerate(ops) if o['op'] == 'frame']
            ops[frames[0]]['attrs']['channels']['$tuple'].append({'$ref': frames[0] - 1})
            fch = [x['$ref'] for x in ops[frames[0]]['attrs']['channels']['$tuple']]
        ops[fch[-1]]['name'] = ops[fch[0]]['name']
        if r.random() < 0.5:
            ops[fch[-1]].pop('dataset_name', None)
            ops[fch[0]].pop('dataset_name', None)
        return 'frame channels'
    if c in ('nan-float-attr', 'inf-float-attr'):
        add({'op': 'well_reference_point', 'name': 'W-INJ', 'attrs': {'magnetic_declination': {'$float': 'nan' if c[0] == 'n' else '-inf'}}})
        return 'wrp'
    raise ValueError(c)


def _refs_any(o, idxs):
    s = str(o.get('attrs', {}))
    return any(f"'$ref': {i}}}" in s or f"'$ref': {i}," in s for i in idxs) or o.get('target') in idxs


def _shift_refs(ops, pos):
    def fix(v):
        if isinstance(v, dict):
            if '$ref' in v:
                return {'$ref': v['$ref'] + (1 if v['$ref'] >= pos else 0)}
            if '$origin_of' in v:
                return {'$origin_of': v['$origin_of'] + (1 if v['$origin_of'] >= pos else 0)}
            return {k: fix(x) for k, x in v.items()}
        if isinstance(v, list):
            return [fix(x) for x in v]
        return v
    for i, o in enumerate(ops):
        if i == pos:
            continue
        if 'attrs' in o:
            o['attrs'] = fix(o['attrs'])
        if 'target' in o and o['target'] >= pos:
            o['target'] += 1
        if 'origin_reference' in o:
            o['origin_reference'] = fix(o['origin_reference'])


def _reindex_after_removal(sp, old_ops):
    keep = [id(o) for o in sp['ops']]
    m = {}
    for i, o in enumerate(old_ops):
        if id(o) in keep:
            m[i] = keep.index(id(o))

    def fix(v):
        if isinstance(v, dict):
            if '$ref' in v:
                return {'$ref': m.get(v['$ref'], 0)}
            if '$origin_of' in v:
                return {'$origin_of': m.get(v['$origin_of'], 0)}
            return {k: fix(x) for k, x in v.items()}
        if isinstance(v, list):
            return [fix(x) for x in v]
        return v
    for o in sp['ops']:
        if 'attrs' in o:
            o['attrs'] = fix(o['attrs'])
        if 'target' in o:
            o['target'] = m.get(o['target'], 0)
        if 'origin_reference' in o:
            o['origin_reference'] = fix(o['origin_reference'])


def run_case(case):
    import numpy as np
    from vf import harness, oracle, metagen, spec as S
    seed = case.get('seed', 0)
    obs, vio = {}, []

    def bump(k, n=1):
        obs[k] = obs.get(k, 0) + n

    r = gen.rng(seed, PROP, case['stratum'], case['index'])
    c = case['class']
    avoid = metagen.default_avoid()
    sp = metagen.meta_spec(r, avoid=avoid, n_objects=r.choice([2, 5]), n_origins=1, origin_pos='first', later_p=0.0,
                           mx=r.choice([128, 8192]))
    sp['write'] = {'output_chunk_size': 2 ** 16, 'source': 'inline'}
    site = inject(sp, c, r, case.get('j', 0))
    bump('class-' + c)
    # raw dtypes that ArraySpec cannot express
    orig_make = S.make_array

    def make_array(a):
        if 'raw' in a:
            shape = tuple(a['shape'])
            if a['raw'] == 'O':
                return np.array([object()] * int(np.prod(shape)), dtype=object).reshape(shape)
            if a['raw'].startswith('<U'):
                return np.array(['ab'] * int(np.prod(shape))).reshape(shape)
            return np.ones(shape, dtype=a['raw'])
        if len(a['shape']) == 3:
            return np.arange(int(np.prod(a['shape'])), dtype=a['dtype']).reshape(a['shape'])
        return orig_make(a)
    S.make_array = make_array
    try:
        if sp['write'].get('history'):
            b = S.build(sp)
            path = harness.fresh_path()
            data = S.make_write_data(sp, b, harness.scratch_dir()) if b.error is None else None
            w1 = S.do_write(sp, b, path, harness.scratch_dir(), data=data) if b.error is None else b.error
            bump('history-first-write-' + w1[0])
            if isinstance(data, dict) and sp['write']['history'].startswith('partial') and len(data) > 1:
                # only ONE of the datasets is supplied again (with new values); the others are missing now
                k0 = sorted(data)[0]
                data2 = {k0: (data[k0] + 1).astype(data[k0].dtype)}
            else:
                data2 = None
            wout = S.do_write(sp, b, path, harness.scratch_dir(), data=data2) if b.error is None else b.error
            fdata = open(path, 'rb').read() if wout[0] == 'ok' else None
            run = oracle.Run(sp, b, wout, fdata, None, None, [])
            if data2 is not None:
                run.arrays = {}     # nothing can be faithful: the specification lacks data -> returning is the violation
        elif sp['write'].get('drop_key'):
            b = S.build(sp)
            data = S.make_write_data(sp, b, harness.scratch_dir()) if b.error is None else None
            if isinstance(data, dict):
                data.pop(sp['write']['drop_key'], None)
            path = harness.fresh_path()
            wout = S.do_write(sp, b, path, harness.scratch_dir(), data=data) if b.error is None else b.error
            fdata = open(path, 'rb').read() if wout[0] == 'ok' else None
            run = oracle.Run(sp, b, wout, fdata, None, None, [])
        else:
            run = harness.execute(sp, want_taps=False)
    finally:
        S.make_array = orig_make
    rejected = [(sp['ops'][i]['op'], o[1], o[2][:60]) for i, o in enumerate(run.built.outcomes) if o[0] != 'ok'] \
        if run.built is not None and run.built.error is None else []
    raised = run.data is None or bool(rejected)
    sig = f'{c}:{site}:{"raised" if raised else "returned"}'
    if raised:
        bump('outcome-raised')
        why = rejected[0][1] if rejected else run.wout[1]
        bump(f'raised:{c}:{why}')
    else:
        bump('outcome-returned')
        bump('returned:' + c)
        if c in MUST_RAISE:
            vio.append({'prop': PROP, 'kind': 'unrepresentable-input-accepted', 'mech': 'accepted:' + c,
                        'detail': f'class {c} injected at {site}: write returned normally ({len(run.data)} bytes)'})
        if not sp['write'].get('history'):
            oracle.analyse(run)
        seen = set()
        for v in run.violations:
            key = (v.prop, v.mech)
            if key in seen:
                continue
            seen.add(key)
            vio.append({'prop': PROP, 'kind': 'returned-file-unfaithful', 'mech': f'unfaithful:{c}:{v.prop}:{v.mech}',
                        'detail': f'class {c} injected at {site}: write returned, but {v.prop} {v.kind}: {v.detail[:300]}'})
    sample = {'class': c, 'site': site, 'outcome': 'raised' if raised else 'returned',
              'exception': (rejected[0] if rejected else run.wout[1:3]) if raised else None}
    return {'evals': 1, 'violations': vio, 'obs': obs, 'sigs': [sig], 'sample': sample}
