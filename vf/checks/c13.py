"""C13 -- frame index metadata is truthful for the rows written (DESIGN.md section 5, C13)."""
from __future__ import annotations
import copy
from vf import gen

PROP = 'C13'
PATTERNS = ['inc', 'dec', 'const', 'zigzag', 'near0.5', 'near1', 'near2', 'single', 'nan', 'inf', 'steps', 'decsteps',
            'wrap', 'plateau']
META = {
    'level': 'exploration',
    'rule': ('one evaluation = one frame of a written file whose decoded INDEX-MIN/INDEX-MAX/SPACING/DIRECTION are compared '
             'with exact statistics of the index rows actually written (python integers / float64); signature = (index dtype, '
             'sequence pattern, window?, user-supplied subset, write number); all but plain increasing float64 are non-trivial'),
    'required_obs': {'quick': ['c13-indexed', 'c13-no-index-type', 'c13-user-supplied', 'c13-assigned-between-writes', 'c13-index-channel-cast', 'c13-one-attribute-supplied', 'c13-single-row', 'c13-unsigned-decreasing',
                               'c13-diff-beyond-dtype', 'c13-uniform', 'c13-nonuniform', 'c13-near-uniform', 'c13-nan',
                               'c13-direction-present', 'c13-window', 'c13-rewrite', 'c13-failed-first-write']
                     + ['c13-dtype-' + d for d in gen.DTYPES]},
    'assumptions': ['tolerance rule as documented in FrameItem._compute_spacing_and_direction: (1 - d/median)^2 < 0.001, '
                    'evaluated with a +-20 % guard band in which either outcome is accepted',
                    'SPACING comparisons allow one rounding in the index dtype'],
}
META['required_obs']['thorough'] = META['required_obs']['quick']


def cases(tier, seed):
    i = 0
    for dt in gen.DTYPES:
        for pat in PATTERNS:
            yield {'stratum': 'matrix', 'index': i, 'kind': 'matrix', 'dtype': dt, 'pattern': pat}
            i += 1
    # every pattern once more with ONE index attribute supplied by the user (the others are still to be derived correctly)
    for dt in (['float64', 'int32', 'uint16'] if tier == 'quick' else gen.DTYPES):
        for pat in PATTERNS:
            for only in ('spacing', 'index_min', 'index_max', 'direction'):
                yield {'stratum': 'one-attribute-supplied', 'index': i, 'kind': 'matrix', 'dtype': dt, 'pattern': pat, 'only': only}
                i += 1
    for k in range(300 if tier == 'quick' else 8000):
        yield {'stratum': 'random', 'index': k, 'kind': 'random'}
    for k in range(60 if tier == 'quick' else 1500):
        yield {'stratum': 'rewrite', 'index': k, 'kind': 'rewrite'}


def index_values(r, dt, pat, n):
    import numpy as np
    d = np.dtype(dt)
    isf = d.kind == 'f'
    info = None if isf else np.iinfo(d)
    if pat == 'single':
        n = 1
    if isf:
        start = r.choice([0.0, 100.0, -50.5, 1e6])
        step = r.choice([0.5, 1.0, 0.1, 0.25, 2.5, 1e-3])
    else:
        lo, hi = int(info.min), int(info.max)
        step = r.choice([1, 2, 3]) if hi < 300 else r.choice([1, 2, 5, 100])
        start = r.choice([lo, 0 if lo < 0 else lo + 1, 5])
        n = min(n, max(2, (hi - start) // step - 1)) if pat != 'single' else 1
    if pat in ('inc', 'single'):
        v = [start + k * step for k in range(n)]
    elif pat == 'dec':
        if isf:
            v = [start - k * step for k in range(n)]
        else:
            top = min(int(info.max), start + (n - 1) * step)
            v = [top - k * step for k in range(n)]
    elif pat == 'const':
        v = [start] * n
    elif pat == 'zigzag':
        v = [start + (k % 2) * step + (k // 2) * step for k in range(n)]
        v = [start + ((k * 7) % 5) * step for k in range(n)]
    elif pat.startswith('near'):
        if not isf:
            v = [start + k * step for k in range(n)]
            if n > 2:
                v[-1] += 1 if v[-1] + 1 <= int(info.max) else -1
        else:
            f = float(pat[4:])
            # relative deviation e with e^2 = f * 0.001
            e = (f * 0.001) ** 0.5
            v = [start]
            for k in range(1, n):
                dk = step * (1 + (e if k == n // 2 else 0.0))
                v.append(v[-1] + dk)
    elif pat == 'nan':
        v = [start + k * step for k in range(n)]
        if isf and n > 1:
            v[r.randrange(n)] = float('nan')
    elif pat == 'inf':
        v = [start + k * step for k in range(n)]
        if isf and n > 1:
            v[-1] = float('inf')
    elif pat == 'steps':
        v = [start + k * step + (step if k >= n // 2 else 0) * 3 for k in range(n)]
    elif pat == 'decsteps':
        # decreasing, clearly non-uniform: DIRECTION must say DECREASING
        base_ = [k * step + (step if k >= n // 2 else 0) * 3 for k in range(n)]
        top = (start + base_[-1]) if isf else min(int(info.max), start + base_[-1])
        v = [top - b_ for b_ in base_]
    elif pat == 'plateau':
        # weakly monotonic with repeated values (differences 0 and step)
        v = [start + (k // 2) * step * (2 if k > n // 2 else 1) for k in range(n)]
    elif pat == 'wrap':
        # unsigned / narrow integers whose differences do not fit the dtype
        if isf:
            # differences beyond the range of the index dtype (of float32: they are ordinary numbers for the FDOUBL attribute)
            big = float(np.finfo(d).max) * r.choice([0.9, 0.6])
            v = r.choice([[-big, big], [-big, 0.0, big], [big, 0.0, -big], [big, -big]])
        else:
            lo, hi = int(info.min), int(info.max)
            v = [hi - 1, lo + 1, hi - 1, lo + 1][:max(2, min(n, 4))] if r.random() < 0.5 else \
                [hi - k * max(1, (hi - lo) // max(2, n)) for k in range(n)]
    else:
        raise ValueError(pat)
    if not isf:
        v = [min(int(info.max), max(int(info.min), int(x))) for x in v]
    return v


def make_spec(r, dt, pat, n=None, order=None, only=None):
    n = n or r.choice([2, 3, 5, 9, 20])
    vals = index_values(r, dt, pat, n)
    n = len(vals)
    mx = r.choice([128, 8192])
    sp = gen.base_spec(mx)
    sp['ops'].append(gen.origin_op())
    fill = {'kind': 'seq', 'values': [x if x == x and abs(x) != float('inf') else 0 for x in vals]}
    import numpy as np
    d = np.dtype(dt)
    if d.kind == 'f':
        a = np.array(vals, dtype=d.newbyteorder('='))
        fill = {'kind': 'seq', 'values': [0] * n, 'bits': [int(x) for x in a.view('u%d' % d.itemsize)]}
    units = r.choice([None, 'm', 's', 'ft'])
    sp['ops'].append(gen.channel_op('INDEX', gen.dtstr(dt, order or r.choice('<>')), (n,), fill=fill,
                                    attrs=({'units': units} if units else {})))
    if r.random() < 0.2:
        # a declared cast on the INDEX channel: the rows are written in the cast dtype, and the index metadata describe
        # the rows written (only casts numpy defines: float -> float, integer -> integer, in-range finite float -> integer)
        import numpy as np
        d_ = np.dtype(dt)
        arr_ = np.array([x if x == x else 0 for x in vals], dtype='f8')
        if d_.kind == 'f':
            opts = ['float32', 'float64']
            if np.all(np.isfinite(arr_)) and np.all(np.abs(arr_) < 2 ** 31 - 1) and all(x == x for x in vals):
                opts += ['int32', 'int32']
                if np.all(arr_ >= 0) and np.all(arr_ < 65535):
                    opts.append('uint16')
        else:
            opts = ['int8', 'uint8', 'int16', 'uint16', 'int32', 'uint32', 'float32', 'float64']
        cast = r.choice([o for o in opts if o != np.dtype(dt).name] or opts)
        sp['ops'][-1]['cast_dtype'] = {'$dtype': cast, 'as': gen.cast_form(r)}
        sp['index_cast'] = cast
    sp['ops'].append(gen.channel_op('VAL', '<f4', (n, 2), fill={'kind': 'pos', 'tag': 3}))
    fat = {}
    if r.random() < 0.85:
        fat['index_type'] = r.choice(gen.INDEX_TYPES)
    sup = []
    if only is not None:
        fat['index_type'] = fat.get('index_type') or r.choice(gen.INDEX_TYPES)
    if only is not None or r.random() < 0.3:
        for kw in ('index_min', 'index_max', 'spacing', 'direction'):
            if (only == kw) if only is not None else (r.random() < 0.4):
                v = r.choice(['INCREASING', 'DECREASING']) if kw == 'direction' else r.choice([0, 0.0, 1, 7.5, -3, 1000])
                route = r.choice(['kw', 'dict', 'AttrSetup'])
                if route != 'kw':
                    d_ = {'value': v}
                    if kw != 'direction' and r.random() < 0.4:
                        d_['units'] = r.choice(['m', 's'])
                    v = {'$setup': d_, 'route': route}
                fat[kw] = v
                sup.append(kw)
    order_ = [1, 2]
    if fat.get('index_type') is None and r.random() < 0.6:
        order_ = [2, 1]      # no index type: the first channel is an ARRAY channel (2-D data); the bounds are row numbers
        sp['array_channel_first'] = True
    sp['ops'].append(gen.frame_op('FR', order_, **fat))
    sp['write'] = {'output_chunk_size': 2 ** 16, 'input_chunk_size': r.choice([None, 1, 2])}
    if n > 1 and r.random() < 0.35:
        a0 = r.randrange(0, n)
        sp['write']['from_idx'] = a0
        sp['write']['to_idx'] = r.choice([r.randrange(a0 + 1, n + 1), None])
    return sp, sup


def run_case(case):
    from vf import harness, oracle, spec as S
    seed = case.get('seed', 0)
    obs, sigs, vio = {}, set(), []
    evals = 0

    def bump(k, n=1):
        obs[k] = obs.get(k, 0) + n

    r = gen.rng(seed, PROP, case['stratum'], case['index'])
    if case['kind'] == 'matrix':
        dt, pat = case['dtype'], case['pattern']
    else:
        dt, pat = r.choice(gen.DTYPES), r.choice(PATTERNS)
    sp, sup = make_spec(r, dt, pat, only=case.get('only'))
    if case.get('only'):
        bump('c13-one-attribute-supplied')
    if sp.pop('index_cast', None):
        bump('c13-index-channel-cast')
    hc = False

    def judge(run, wn):
        nonlocal evals
        if run.data is None:
            bump('write-raised:%s:%s' % (run.wout[1], run.wout[2][:50]))
            return
        oracle.check_frames(run)
        evals += run.obs.get('c13-frame', 0)
        for k, v in run.obs.items():
            if k.startswith('c13'):
                bump(k, v)
        w = run.spec.get('write', {})
        if w.get('from_idx') is not None:
            bump('c13-window')
        if not (dt == 'float64' and pat == 'inc' and not sup and w.get('from_idx') is None and wn == 1):
            sigs.add(f'{dt}:{pat}:{w.get("from_idx") is not None}:{sorted(sup)}:{wn}')
        for v in run.by_prop(PROP):
            d = v.as_dict()
            if wn > 1:
                d['mech'] = 'rewrite:' + d['mech']
            vio.append(d)

    if case['kind'] != 'rewrite':
        judge(harness.execute(sp, want_taps=False), 1)
    else:
        # history: the same DLISFile written 2-3 times with other windows / other data of the same shape
        b = S.build(sp)
        path = harness.fresh_path()
        nwr = r.choice([2, 3])
        n = sp['ops'][1]['data']['shape'][0]
        # optionally the FIRST write is one that the library rejects while it sets the frame up (2-D index data, or a
        # non-uniform index in high-compatibility mode); the cause is then removed and the file written
        failed_first = r.choice([None, None, '2d-index', 'hc-nonuniform'])
        if failed_first and sp['ops'][3]['attrs'].get('index_type') is not None:
            import numpy as np
            key = sp['ops'][1].get('dataset_name') or sp['ops'][1]['name']
            if failed_first == '2d-index':
                bad = (np.arange(n * 1, dtype='<f8') * 3.0 + 1000.0).reshape(n, 1)
                w0 = S.do_write(sp, b, path, harness.scratch_dir(), data={key: bad})
            else:
                from dliswriter import high_compatibility_mode
                bad = np.cumsum(np.arange(1, n + 1, dtype='<f8') ** 2) + 5000.0
                try:
                    with high_compatibility_mode():
                        w0 = S.do_write(sp, b, path, harness.scratch_dir(), data={key: bad})
                except Exception as e:  # noqa
                    w0 = ('exc', type(e).__name__, str(e)[:100])
            bump('c13-failed-first-write:' + failed_first + ':' + w0[0])
            if w0[0] != 'ok':
                bump('c13-failed-first-write')
        for wn in range(1, nwr + 1):
            if wn > 1 and r.random() < 0.5:
                # between two writes the user supplies index attributes explicitly: from now on they are written unchanged
                for kw in r.sample(['index_min', 'index_max', 'spacing'], r.choice([1, 2, 3])):
                    op = {'op': 'assign', 'target': 3, 'target_op': 'frame', 'kw': kw, 'part': 'value',
                          'value': r.choice([-5, 0, 7.5, 100, 0.0]), 'via': r.choice([None, 'set_attributes'])}
                    sp['ops'].append(op)
                    try:
                        S.run_op(b, len(sp['ops']) - 1, op, 'inline')
                        b.outcomes.append(('ok',))
                        if kw not in sup:
                            sup.append(kw)
                        bump('c13-assigned-between-writes')
                    except Exception as e:  # noqa
                        b.outcomes.append(('exc', type(e).__name__, str(e)[:100]))
            spw = copy.deepcopy(sp)
            if wn > 1 and n > 1:
                a0 = r.randrange(0, n)
                spw['write']['from_idx'] = a0
                spw['write']['to_idx'] = r.randrange(a0 + 1, n + 1)
            wout = S.do_write(spw, b, path, harness.scratch_dir())
            data = open(path, 'rb').read() if wout[0] == 'ok' else None
            run = oracle.Run(spw, b, wout, data, None, None, [])
            bump('c13-rewrite' if wn > 1 else 'c13-first-write')
            judge(run, wn)
    sample = {'dtype': dt, 'pattern': pat, 'index_values': sp['ops'][1]['data']['fill'].get('values', [])[:8],
              'frame_attrs': {k: v for k, v in sp['ops'][3]['attrs'].items() if k != 'channels'}, 'write': sp['write']}
    return {'evals': evals, 'violations': vio, 'obs': obs, 'sigs': sorted(sigs), 'sample': sample}
