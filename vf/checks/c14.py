"""C14 -- output depends only on the current specification, not on process history (DESIGN.md section 5, C14)."""
from __future__ import annotations
import copy
from vf import gen, schema

PROP = 'C14'
STEP_KINDS = ['rewrite', 'assign-value', 'assign-units', 'rename', 'origin-ref', 'cast-dtype', 'add-objects',
              'add-nf-data', 'other-window', 'other-chunks', 'other-data', 'other-data-dtype', 'other-data-width', 'foreign-same-names', 'foreign-colliding-values',
              'hc-mode-around', 'param-values', 'clear-channel-units', 'change-channel-units', 'assign-other-kind',
              'rename-then-reuse-name', 'rejected-add-then-same-name', 'assign-derived-attr', 'rename-channel',
              'channel-leaves-frame', 'frameless-channel-dimension', 'frameless-channel-joins-frame', 'dtime-other-fold']
META = {
    'level': 'exploration',
    'rule': ('one evaluation = one history (foreign files built and written, the target file built, written, mutated and '
             'written again ...) whose last write is compared byte-for-byte with a fresh interpreter that builds the final '
             'specification alone and writes once; signature = the sequence of step kinds; non-trivial when the history '
             'contains at least one earlier write or an earlier foreign file'),
    'required_obs': {'quick': ['compared', 'both-ok', 'shared-data-struct', 'two-logical-files-late-types', 'hdf5-source-replaced'] + ['step-' + k for k in STEP_KINDS]},
    'assumptions': ['origins carry explicit file_set_number and creation_time (the statement exempts random / now() defaults)',
                    'a real fresh interpreter (subprocess) executes the final specification',
                    'supplying the final data inline or through write(data=dict) is equivalent (C11)'],
    'technique': 'runtime monitoring: differential of an in-process history against a fresh-process execution of the final specification',
    'timeout_s': {'quick': 900, 'thorough': 7200},
}
META['required_obs']['thorough'] = META['required_obs']['quick']


def cases(tier, seed):
    i = 0
    # one caller-owned data object (structured array / dict / HDF5 file) re-used for every write of a history
    for j in range(40 if tier == 'quick' else 1000):
        yield {'stratum': 'shared-data-object', 'index': j, 'kind': 'shared-data'}
    # the HDF5 source file REPLACED on disk (same path, other data) between two writes of one process
    for j in range(10 if tier == 'quick' else 200):
        yield {'stratum': 'hdf5-source-replaced', 'index': j, 'kind': 'hdf5-replaced'}
    # two logical files; one of them gets objects of further types only after a first write
    for j in range(24 if tier == 'quick' else 500):
        yield {'stratum': 'two-logical-files-late-types', 'index': j, 'kind': 'two-lf'}
    for k in STEP_KINDS:
        for j in range((5 if k == 'hc-mode-around' else 3) if tier == 'quick' else 20):
            yield {'stratum': 'single-step', 'index': i, 'kind': 'single', 'step': k, 'variant': j}
            i += 1
    for k in range(160 if tier == 'quick' else 4000):
        yield {'stratum': 'random-history', 'index': k, 'kind': 'random'}


def base_spec(r, avoid):
    from vf import metagen
    sp = metagen.meta_spec(r, avoid=avoid, n_objects=r.choice([3, 6, 10]), n_origins=r.choice([1, 2]), origin_pos='first',
                           mx=r.choice([128, 8192]), later_p=0.0)
    # fixtures the history steps operate on: an indexed frame whose index channel has units, and attributes whose
    # representation code is inferred from the value (text/number, text/reference, number/date-time)
    ops = sp['ops']
    n = 5
    ops.append(gen.channel_op('K-INDEX', '<f8', (n,), fill={'kind': 'lin', 'start': 10.0, 'step': 0.5}, attrs={'units': 'm'}))
    ops.append(gen.channel_op('K-CURVE', '<f4', (n,), fill={'kind': 'pos', 'tag': 321},
                              attrs={'long_name': 'curve long name', 'units': 's'}))
    fat = {'index_type': 'BOREHOLE-DEPTH'}
    # index attributes of which the user specifies only ONE part (a value without units, or units without a value)
    if r.random() < 0.5:
        fat['index_min'] = r.choice([10.0, 9.5])
    if r.random() < 0.4:
        fat['spacing'] = {'$setup': {'units': 'ft'}, 'route': r.choice(['dict', 'AttrSetup'])}
    if r.random() < 0.3:
        fat['index_max'] = {'$setup': {'value': 12.0, 'units': 'in'}, 'route': 'dict'}
    ops.append(gen.channel_op('K-IMAGE', '<i2', (n, 2), fill={'kind': 'pos', 'tag': 322}))
    ops.append(gen.frame_op('K-FRAME', [len(ops) - 3, len(ops) - 2, len(ops) - 1], **fat))
    # a channel in no frame (data at hand), with only one of DIMENSION / ELEMENT-LIMIT given, or neither
    lon = gen.channel_op('K-LONER', '<u2', (n, 2), fill={'kind': 'pos', 'tag': 323})
    form = r.choice(['dimension', 'element_limit', 'none'])
    if form != 'none':
        lon['attrs'][form] = [2] if form == 'dimension' else [r.choice([2, 3])]
    ops.append(lon)
    ops.append({'op': 'long_name', 'name': 'K-LN', 'attrs': {'quantity': 'pressure'}})
    ops.append({'op': 'parameter', 'name': 'K-PARAM', 'attrs': {'values': [r.choice(['text value', 12.5, 7])], 'long_name': 'param text'}})
    ops.append({'op': 'zone', 'name': 'K-ZONE', 'attrs': {'domain': 'TIME', 'maximum': 5.5, 'minimum': 1.0}})
    # an aware date-time inside a repeated hour (zone object shared by all date-times of the zone, as with zoneinfo)
    ops.append({'op': 'zone', 'name': 'K-ZONE-T', 'attrs': {'domain': 'TIME', 'maximum': {'$dt': [2024, 10, 27, 2, 30, 0, 0], 'tz': 'RH', 'fold': r.choice([0, 1])}}})
    ops.append({'op': 'axis', 'name': 'K-AXIS', 'attrs': {'coordinates': r.choice([[1, 2, 3], ['a', 'b'], [0.5, 1.5]])}})
    sp['write'] = {'output_chunk_size': 2 ** 16}
    return sp


def foreign_spec(r, target, mode):
    """An unrelated file reusing the target's names with other origins / copy numbers / types / values."""
    from vf import metagen
    sp = gen.base_spec(r.choice([128, 8192]))
    sp['ops'].append(gen.origin_op('FOREIGN-ORIGIN', fsn=77, origin_reference=r.choice([None, 5, 200])))
    names = [o['name'] for o in target['ops'] if o['op'] in schema.TYPES and o['op'] not in ('origin',)][:8]
    n = 3
    chs = []
    for j, nm in enumerate(names[:2] or ['X']):
        sp['ops'].append(gen.channel_op(nm, r.choice(['<f4', '>i2', '<u1']), (n,), fill={'kind': 'pos', 'tag': 50 + j}))
        chs.append(len(sp['ops']) - 1)
    sp['ops'].append(gen.frame_op(names[2] if len(names) > 2 else 'FF', chs))
    for nm in names:
        # same name, another type, twice (copy numbers 0 and 1)
        for _ in range(2):
            sp['ops'].append({'op': 'zone', 'name': nm, 'attrs': {'description': 'foreign ' + nm[:10]}})
    if mode == 'values':
        vals = [0.0, -0.0, 1.0, 1, True, 2, 2.0, 0, False, 255, 255.0, 'abc', 128, 16384]
        r.shuffle(vals)
        for j, v in enumerate(vals):
            if isinstance(v, str):
                sp['ops'].append({'op': 'parameter', 'name': f'PV{j}', 'attrs': {'values': [v]}})
            elif isinstance(v, bool):
                sp['ops'].append({'op': 'equipment', 'name': f'PV{j}', 'attrs': {'status': v, 'height': float(v)}})
            else:
                sp['ops'].append({'op': 'parameter', 'name': f'PV{j}', 'attrs': {'values': [v]}})
                sp['ops'].append({'op': 'well_reference_point', 'name': f'PW{j}', 'attrs': {'magnetic_declination': v}})
                sp['ops'].append({'op': 'axis', 'name': f'PA{j}', 'attrs': {'spacing': v, 'coordinates': [v, v]}})
    sp['write'] = {'output_chunk_size': 2 ** 16}
    return sp


def make_phase(r, kind, ops_so_far, base, avoid):
    """Return a phase dict {'ops': [...], 'write': {...}, ...} realising one step kind AFTER a previous write."""
    ph = {'ops': [], 'write': {'output_chunk_size': 2 ** 16}}
    objs = [(i, o) for i, o in enumerate(ops_so_far) if o['op'] in schema.TYPES]
    chans = [(i, o) for i, o in objs if o['op'] == 'channel']
    rows = chans[0][1]['data']['shape'][0]
    if kind == 'rewrite':
        pass
    elif kind in ('assign-value', 'assign-units'):
        cands = []
        for i, o in objs:
            for kw, lab, k, multi in schema.TYPES[o['op']]['attrs']:
                if k in ('text', 'num', 'fdoubl') and not multi and not (o['op'] == 'frame'):
                    cands.append((i, o['op'], kw, k))
        if cands:
            i, t, kw, k = r.choice(cands)
            ph['ops'].append({'op': 'assign', 'target': i, 'target_op': t, 'kw': kw, 'part': 'value',
                              'value': gen.gen_scalar(r, t, kw, k, {})})
            if kind == 'assign-units' and k != 'text':
                ph['ops'].append({'op': 'assign', 'target': i, 'target_op': t, 'kw': kw, 'part': 'units',
                                  'value': r.choice(gen.UNIT_STRINGS)})
    elif kind in ('clear-channel-units', 'change-channel-units'):
        cands = [i for i, o in chans if o['attrs'].get('units') is not None] or [chans[0][0]]
        i = r.choice(cands)
        ph['ops'].append({'op': 'assign', 'target': i, 'target_op': 'channel', 'kw': 'units', 'part': 'value',
                          'value': None if kind.startswith('clear') else r.choice(['ft', 'K', 'Pa'])})
    elif kind == 'assign-other-kind':
        byname = {}
        for i, o in objs:
            byname.setdefault(o['name'], i)       # (the fixture, not a later object that was given its former name)
        which = r.choice(['param', 'param-ln', 'zone', 'axis', 'chan-ln'])
        if which == 'param':
            cur = ops_so_far[byname['K-PARAM']]['attrs']['values'][0]
            ph['ops'].append({'op': 'assign', 'target': byname['K-PARAM'], 'target_op': 'parameter', 'kw': 'values', 'part': 'value',
                              'value': [12.5 if isinstance(cur, str) else 'now text']})
        elif which == 'param-ln':
            ph['ops'].append({'op': 'assign', 'target': byname['K-PARAM'], 'target_op': 'parameter', 'kw': 'long_name', 'part': 'value',
                              'value': {'$ref': byname['K-LN']}})
        elif which == 'chan-ln':
            ph['ops'].append({'op': 'assign', 'target': byname['K-CURVE'], 'target_op': 'channel', 'kw': 'long_name', 'part': 'value',
                              'value': {'$ref': byname['K-LN']}})
        elif which == 'zone':
            for kw in ('maximum', 'minimum'):
                ph['ops'].append({'op': 'assign', 'target': byname['K-ZONE'], 'target_op': 'zone', 'kw': kw, 'part': 'value',
                                  'value': {'$dt': [2020, 5, 6 if kw == 'maximum' else 5, 1, 2, 3, 0], 'tz': 0}})
        else:
            cur = ops_so_far[byname['K-AXIS']]['attrs']['coordinates'][0]
            ph['ops'].append({'op': 'assign', 'target': byname['K-AXIS'], 'target_op': 'axis', 'kw': 'coordinates', 'part': 'value',
                              'value': ['x', 'y'] if not isinstance(cur, str) else [1.5, 2.5]})
    elif kind == 'rename':
        cands = [(i, o) for i, o in objs if o['op'] not in ('origin', 'channel')]
        if r.random() < 0.4:
            cands = [(i, o) for i, o in objs if o['op'] in ('frame', 'no_format', 'zone', 'axis')] or cands
        i, o = r.choice(cands)
        ph['ops'].append({'op': 'setattr', 'target': i, 'field': 'name', 'value': 'RENAMED-%d' % i})
    elif kind == 'dtime-other-fold':
        # the OTHER occurrence of the same wall-clock time (equal as a dict key, another instant)
        for i, o in objs:
            if o['name'] == 'K-ZONE-T':
                cur = o['attrs']['maximum']
                for q in ops_so_far:
                    if q.get('op') == 'assign' and q.get('target') == i and q.get('kw') == 'maximum':
                        cur = q['value']
                ph['ops'].append({'op': 'assign', 'target': i, 'target_op': 'zone', 'kw': 'maximum', 'part': 'value',
                                  'value': dict(cur, fold=1 - cur['fold'])})
    elif kind == 'rename-channel':
        # a channel (with explicit dataset_name, so that its data are still found) is renamed after a write: whatever was
        # defaulted from its name at that write (LONG-NAME) follows
        cands = [(i, o) for i, o in chans if o.get('dataset_name') and not any(q.get('op') == 'setattr' and q.get('target') == i for q in ops_so_far)
                 and sum(1 for _, q in chans if q['name'] == o['name']) == 1]
        if cands:
            i, o = r.choice(cands)
            ph['ops'].append({'op': 'setattr', 'target': i, 'field': 'name', 'value': 'RENAMED-CHANNEL-%d' % i, 'fold': True})
    elif kind == 'assign-derived-attr':
        # attributes the library derives from the data when they are left alone (frame index bounds and spacing, channel
        # element limit) are given explicitly AFTER a write that derived them
        byname = {}
        for i, o in objs:
            byname.setdefault(o['name'], i)
        which = r.choice(['frame-index', 'frame-index', 'element-limit'])
        if which == 'frame-index' and 'K-FRAME' in byname:
            for kw in r.sample(['index_min', 'index_max', 'spacing'], r.choice([1, 2, 3])):
                ph['ops'].append({'op': 'assign', 'target': byname['K-FRAME'], 'target_op': 'frame', 'kw': kw, 'part': 'value',
                                  'value': r.choice([-5, 0, 7.5, 100]), 'via': r.choice([None, 'set_attributes'])})
        elif 'K-CURVE' in byname:
            ph['ops'].append({'op': 'assign', 'target': byname['K-CURVE'], 'target_op': 'channel', 'kw': 'element_limit', 'part': 'value',
                              'value': [r.choice([2, 3, 8])]})
    elif kind in ('channel-leaves-frame', 'frameless-channel-dimension', 'frameless-channel-joins-frame'):
        byname = {}
        for i, o in objs:
            byname.setdefault(o['name'], i)
        if all(k_ in byname for k_ in ('K-FRAME', 'K-INDEX', 'K-CURVE', 'K-IMAGE', 'K-LONER')):
            cur = [byname['K-INDEX'], byname['K-CURVE'], byname['K-IMAGE']]
            for q in ops_so_far:
                if q.get('op') == 'assign' and q.get('target') == byname['K-FRAME'] and q.get('kw') == 'channels':
                    cur = [x['$ref'] for x in q['value']['$tuple']]
            lon = byname['K-LONER']
            if kind == 'channel-leaves-frame' and len(cur) > 1:
                # what the previous write derived for the channel (DIMENSION, ELEMENT-LIMIT, representation code) described
                # its data as a member of the frame
                out = r.choice(cur[1:])
                ph['ops'].append({'op': 'assign', 'target': byname['K-FRAME'], 'target_op': 'frame', 'kw': 'channels', 'part': 'value',
                                  'value': {'$tuple': [{'$ref': x} for x in cur if x != out]}})
            elif kind == 'frameless-channel-dimension' and lon not in cur:
                ph['ops'].append({'op': 'assign', 'target': lon, 'target_op': 'channel', 'kw': r.choice(['dimension', 'dimension', 'element_limit']),
                                  'part': 'value', 'value': [r.choice([1, 2, 5])]})
            elif kind == 'frameless-channel-joins-frame' and lon not in cur:
                ph['ops'].append({'op': 'assign', 'target': byname['K-FRAME'], 'target_op': 'frame', 'kw': 'channels', 'part': 'value',
                                  'value': {'$tuple': [{'$ref': x} for x in cur + [lon]]}})
    elif kind == 'rename-then-reuse-name':
        # an object gets another name, then its former name is given to a new object of the same type and set; the final
        # specification (what the fresh interpreter builds) simply has the two objects under their final names
        def unique(i, o):
            return sum(1 for _, q in objs if q['op'] == o['op'] and q['name'] == o['name']) == 1
        cands = [(i, o) for i, o in objs if o['op'] not in ('origin', 'channel', 'frame') and unique(i, o)
                 and not any(q['op'] == 'setattr' and q.get('target') == i for q in ops_so_far)]
        if cands:
            i, o = r.choice(cands)
            ph['ops'].append({'op': 'setattr', 'target': i, 'field': 'name', 'value': 'FORMERLY-%d' % i, 'fold': True})
            new = {'op': o['op'], 'name': o['name'], 'attrs': {}, 'lf': o.get('lf', 0)}
            if o.get('set_name') is not None:
                new['set_name'] = o['set_name']
            if o.get('origin_reference') is not None and not isinstance(o['origin_reference'], dict):
                new['origin_reference'] = o['origin_reference']
            ph['ops'].append(new)
    elif kind == 'rejected-add-then-same-name':
        # a call the library rejects (after it has started creating the object), then a valid call with the same name
        t = r.choice(['zone', 'equipment', 'parameter', 'comment', 'axis', 'long_name', 'tool'])
        bad = {'zone': {'domain': 'NOT-A-DOMAIN'}, 'equipment': {'status': 7}, 'parameter': {'values': [1.5], 'zones': ['not a zone']},
               'comment': {'text': 5}, 'axis': {'spacing': 'x'}, 'long_name': {'quantity': 5}, 'tool': {'status': 9}}[t]
        n0 = len(ops_so_far)
        nm = f'TWICE{n0}'
        for _ in range(r.choice([1, 2])):
            ph['ops'].append({'op': t, 'name': nm, 'attrs': bad, 'expect': 'reject', 'fold': True})
        ph['ops'].append({'op': t, 'name': nm, 'attrs': {}})
    elif kind == 'origin-ref':
        origins = [i for i, o in objs if o['op'] == 'origin']
        i, o = r.choice([(i, o) for i, o in objs if o['op'] != 'origin'])
        ph['ops'].append({'op': 'setattr', 'target': i, 'field': 'origin_reference',
                          'value': r.choice([7, 130]) if len(origins) < 2 else 1})
    elif kind == 'cast-dtype':
        i, o = r.choice(chans)
        ph['ops'].append({'op': 'setattr', 'target': i, 'field': 'cast_dtype',
                          'value': {'$dtype': r.choice(['float64', 'float32']), 'as': 'type'}})
    elif kind == 'add-objects':
        n0 = len(ops_so_far)
        for j in range(r.randint(1, 4)):
            t = r.choice(['zone', 'comment', 'equipment', 'message', 'long_name'])
            ph['ops'].append({'op': t, 'name': f'ADDED{n0 + j}', 'attrs': ({'description': 'added later'} if t == 'zone' else {})})
    elif kind == 'param-values':
        n0 = len(ops_so_far)
        ph['ops'].append({'op': 'parameter', 'name': f'PARAM{n0}', 'attrs': {'values': [r.choice([1.5, 3, 'txt'])]}})
        ph['ops'].append({'op': 'computation', 'name': f'COMP{n0}', 'attrs': {'values': [2.5, 3.5]}})
    elif kind == 'add-nf-data':
        nfs = [i for i, o in objs if o['op'] == 'no_format']
        n0 = len(ops_so_far)
        if not nfs:
            ph['ops'].append(gen.nf_op(f'NF{n0}'))
            nfs = [n0]
        ph['ops'].append(gen.nf_data_op(nfs[0], gen.payload_bytes(r, r.choice([0, 3, 50]), n0)))
    elif kind == 'other-window':
        if rows > 1:
            a = r.randrange(0, rows)
            ph['write'].update({'from_idx': a, 'to_idx': r.randrange(a + 1, rows + 1)})
    elif kind == 'other-chunks':
        ph['write'].update({'input_chunk_size': r.choice([1, 2, 5]), 'output_chunk_size': r.choice([8192, 2 ** 14, 2 ** 20])})
    elif kind in ('other-data', 'other-data-dtype', 'other-data-width'):
        ph['arrays'] = {}
        for i, o in chans:
            a = copy.deepcopy(o['data'])
            a['fill'] = {'kind': 'safe', 'tag': 900 + i} if kind != 'other-data' else {'kind': 'pos', 'tag': 900 + i}
            if kind == 'other-data-dtype' and not o.get('cast_dtype'):
                cur = a['dtype'][1:]
                a['dtype'] = '<' + r.choice([d for d in ('f8', 'f4', 'i4', 'u2') if d != cur])
            if kind == 'other-data-width' and not o['attrs'].get('element_limit') and not o['attrs'].get('dimension'):
                a['shape'] = [a['shape'][0], r.choice([2, 3, 5]) + (a['shape'][1] if len(a['shape']) > 1 else 0)]
            ph['arrays'][str(i)] = a
    elif kind in ('foreign-same-names', 'foreign-colliding-values'):
        ph['foreign'] = [foreign_spec(r, {'ops': ops_so_far}, 'values' if kind.endswith('values') else 'names')]
    elif kind == 'hc-mode-around':
        ph['hc_around'] = True
    return ph


def run_case(case):
    from vf import harness, history, metagen
    seed = case.get('seed', 0)
    obs, vio = {}, []

    def bump(k, n=1):
        obs[k] = obs.get(k, 0) + n

    r = gen.rng(seed, PROP, case['stratum'], case['index'])
    avoid = metagen.default_avoid()
    if case['kind'] == 'two-lf':
        base = metagen.meta_spec(r, avoid=avoid, n_objects=0, lf_count=2, n_origins=1, origin_pos='first', later_p=0.0, mx=8192)
        base['write'] = {'output_chunk_size': 2 ** 16}
        pool = ['zone', 'axis', 'comment', 'equipment', 'message', 'long_name', 'tool', 'parameter', 'well_reference_point']
        have = {0: r.sample(pool, r.choice([0, 1, 2])), 1: r.sample(pool, r.choice([3, 5, 7]))}
        if r.random() < 0.5:
            have = {0: have[1], 1: have[0]}
        for lf_, ts in have.items():
            for t in ts:
                base['ops'].append({'op': t, 'lf': lf_, 'name': f'L{lf_}-{t.upper()}-EARLY', 'attrs': {}, 'set_name': f'L{lf_}-S'})
        late = []
        for lf_ in (0, 1):
            missing = [t for t in pool if t not in have[lf_]]
            for t in r.sample(missing, min(len(missing), r.choice([0, 2, 4]))):
                late.append({'op': t, 'lf': lf_, 'name': f'L{lf_}-{t.upper()}-LATE', 'attrs': {}, 'set_name': f'L{lf_}-S'})
        r.shuffle(late)
        kinds = ['two-lf-late-types']
        hist = {'base': base, 'foreign_before': [], 'phases': [{'ops': [], 'write': {'output_chunk_size': 2 ** 16}},
                                                               {'ops': late, 'write': {'output_chunk_size': 2 ** 16}}]}
        if r.random() < 0.4:
            hist['phases'].insert(1, {'ops': [], 'write': {'output_chunk_size': 2 ** 16}})
        bump('two-logical-files-late-types')
    elif case['kind'] == 'shared-data':
        base = gen.fastpath_spec(r) if r.random() < 0.6 else gen.frame_spec(r, sources=('struct', 'dict', 'hdf5'), casts=False)
        base['write']['output_chunk_size'] = 2 ** 16
        for k_ in ('from_idx', 'to_idx', 'input_chunk_size'):
            base['write'].pop(k_, None)
        kinds = [r.choice(['rewrite', 'other-window', 'other-chunks', 'rewrite']) for _ in range(r.randint(1, 3))]
        hist = {'base': base, 'phases': [{'ops': [], 'write': {'output_chunk_size': 2 ** 16}}], 'foreign_before': [], 'shared_data': True}
        bump('shared-data-' + base['write']['source'])
    elif case['kind'] == 'hdf5-replaced':
        base = gen.frame_spec(r, sources=('hdf5',), casts=False, nframes=r.choice([1, 2]), fills=('pos',))
        for k_ in ('from_idx', 'to_idx', 'input_chunk_size', 'perm_seed', 'extra'):
            base['write'].pop(k_, None)
        base['write'].update({'output_chunk_size': 2 ** 16, 'h5name': 'history-source.h5'})
        base.pop('caller_reuses_lists', None)
        kinds = ['other-data'] * r.choice([1, 2])
        hist = {'base': base, 'phases': [{'ops': [], 'write': {'output_chunk_size': 2 ** 16}}], 'foreign_before': [], 'arrays_via': 'hdf5-replaced'}
        bump('hdf5-source-replaced')
    else:
        base = base_spec(r, avoid)
        kinds = [case['step']] if case['kind'] == 'single' else [r.choice(STEP_KINDS) for _ in range(r.randint(1, 5))]
        hist = {'base': base, 'phases': [{'ops': [], 'write': {'output_chunk_size': 2 ** 16}}], 'foreign_before': []}
    if case['kind'] != 'two-lf' and (r.random() < 0.4 or kinds[0].startswith('foreign')):
        hist['foreign_before'].append(foreign_spec(r, base, r.choice(['names', 'values'])))
    ops = list(base['ops'])
    for k in (kinds if case['kind'] != 'two-lf' else []):
        ph = make_phase(r, k, ops, base, avoid)
        if ph.pop('hc_around', False):
            # enter and leave high-compatibility mode (with an exception inside) between the two writes
            ph['foreign'] = ph.get('foreign', []) + ['__hc__']
        ops.extend(ph['ops'])
        hist['phases'].append(ph)
        bump('step-' + k)
    # realise the '__hc__' marker: a context entered, an exception raised inside, context left
    for ph in hist['phases']:
        if '__hc__' in ph.get('foreign', []):
            ph['foreign'] = [f for f in ph['foreign'] if f != '__hc__']
            from dliswriter import high_compatibility_mode, high_compatibility_mode_decorator
            forms_ = ['nested-with-exception', 'nested-decorated-calls', 'decorated-call-raises', 'managers-built-up-front',
                      'manager-created-inside-entered-after']
            form = forms_[case['variant'] % 5] if case.get('variant') is not None else r.choice(forms_)
            bump('hc-usage-before-history:' + form)
            if form == 'nested-with-exception':
                try:
                    with high_compatibility_mode():
                        with high_compatibility_mode():
                            raise KeyError('leave by exception')
                except KeyError:
                    pass
            elif form in ('nested-decorated-calls', 'decorated-call-raises'):
                @high_compatibility_mode_decorator
                def export_one(fail):
                    if fail:
                        raise KeyError('inside a decorated function')

                @high_compatibility_mode_decorator
                def export_all(fail):
                    export_one(False)
                    export_one(fail)
                try:
                    export_all(form == 'decorated-call-raises')
                except KeyError:
                    pass
            elif form == 'managers-built-up-front':
                a_, b_ = high_compatibility_mode(), high_compatibility_mode()
                with a_:
                    with b_:
                        pass
            else:
                with high_compatibility_mode():
                    later = high_compatibility_mode()
                with later:
                    pass
    wout, data, outcomes, log = history.run_history(hist)
    all_ops = list(base['ops']) + [o for ph in hist['phases'] for o in ph.get('ops', [])]
    for i, o in enumerate(all_ops):
        if o.get('expect') == 'reject' and o.get('fold') and i < len(outcomes) and outcomes[i][0] == 'ok':
            # the call meant to be rejected was accepted: it IS part of the specification then; nothing to compare
            bump('not-rejected:' + o['op'])
            return {'evals': 0, 'violations': [], 'obs': obs, 'sigs': [], 'sample': None}
        if o.get('expect') == 'reject' and o.get('fold'):
            bump('rejected-call-folded-away')
    fsp = history.final_spec(hist)
    fw, fdata, foutcomes = history.run_fresh(fsp)
    bump('compared')
    sig = '>'.join(kinds) + ('|foreign-first' if hist['foreign_before'] else '')
    label = ' > '.join(kinds)
    if (wout[0] == 'ok') and (fw[0] == 'ok'):
        bump('both-ok')
        if data != fdata:
            d = next((i for i in range(min(len(data), len(fdata))) if data[i] != fdata[i]), min(len(data), len(fdata)))
            # name the record in which the first difference lies
            where = ''
            try:
                from vf import rp66
                recs = rp66.logical(rp66.physical(fdata))
                for rec in recs:
                    if rec.segments[0].offset <= d:
                        where = f'record {rec.index} ({"EFLR" if rec.explicit else "IFLR"} type {rec.type})'
                        if rec.explicit:
                            try:
                                where += ' set ' + rp66.parse_eflr(rec.body, rec.type).type
                            except rp66.Malformed:
                                pass
            except Exception:
                pass
            culprit = kinds[-1] if len(kinds) == 1 else 'multi'
            vio.append({'prop': PROP, 'kind': 'bytes-differ-from-fresh', 'mech': 'history:' + culprit,
                        'detail': f'history [{label}]: last write differs from the fresh process at offset {d} '
                                  f'(sizes {len(data)} / {len(fdata)}) in {where}'})
    elif (wout[0] == 'ok') != (fw[0] == 'ok'):
        culprit = kinds[-1] if len(kinds) == 1 else 'multi'
        vio.append({'prop': PROP, 'kind': 'writability-depends-on-history', 'mech': 'history-outcome:' + culprit,
                    'detail': f'history [{label}]: in-process {wout[:3]}, fresh process {fw[:3]}'})
    else:
        bump('both-raised:%s' % (fw[2][:50] if len(fw) > 2 else ''))
    sample = {'steps': kinds, 'foreign_before': len(hist['foreign_before']),
              'phases': [{'ops': [(o['op'], o.get('field') or o.get('kw') or str(o.get('name'))[:16]) for o in ph['ops']],
                          'write': ph['write'], 'other_data': bool(ph.get('arrays'))} for ph in hist['phases']]}
    return {'evals': 1, 'violations': vio, 'obs': obs, 'sigs': [sig], 'sample': sample}
