"""C15 -- writability never hinges on byte-size coincidences (DESIGN.md section 5, C15)."""
from __future__ import annotations
from vf import gen

PROP = 'C15'
META = {
    'level': 'exploration',
    'rule': ('one evaluation = one size-extreme valid specification (or valid record sequence) written; signature = '
             '(record length class, size class, outcome); non-trivial when a record body is < 12 bytes, the record '
             'length is < 32 or >= 16382, a name has >= 128 characters, or a body exceeds 3 capacities'),
    'required_obs': {'quick': ['body-lt-12', 'mx-20..30', 'mx-32', 'mx-16384', 'name-255', 'body-gt-3cap',
                               'write-ok', 'odd-body', 'row-ge-64KiB', 'row-ge-1MiB', 'file-decoded', 'name-255', 'record-count-grid', 'record-count-grid-multi-lf', 'declared-record-count-checked', 'float-chunk-size-flushed-mid-write', 'file-of-several-chunks']},
    'exhaustive_windows': {
        'quick': ['every even record length 20..256 and a stride sample above, with a fixed small specification'],
        'thorough': ['every even record length 20..16384 (8183 values) with a fixed small specification',
                     'frame row widths 1..40 bytes x record lengths {32,64,128,8192}',
                     'no-format payload lengths 0..30 x name lengths 1..8'],
    },
    'assumptions': ['a write that raises for a valid specification is the violation; the written file must also pass '
                    'the physical layer of the strict reader'],
}
META['required_obs']['thorough'] = META['required_obs']['quick']


def cases(tier, seed):
    i = 0
    mxs = list(range(20, 258, 2)) + [510, 512, 1000, 1024, 4096, 8190, 8192, 16000, 16382, 16384]
    if tier == 'thorough':
        mxs = list(range(20, 16386, 2))
    B = 8 if tier == 'quick' else 64
    for j in range(0, len(mxs), B):
        yield {'stratum': 'every-mx', 'index': i, 'kind': 'mx', 'mxs': mxs[j:j + B]}
        i += 1
    # invalid record lengths must be rejected (constructor or write)
    yield {'stratum': 'invalid-mx', 'index': 0, 'kind': 'badmx', 'mxs': [0, 2, 18, 19, 21, 33, 8191, 16385, 16386, 20000, -32]}
    # row widths 1..40 bytes
    widths = range(1, 41)
    for mx in ([32, 128, 8192] if tier == 'quick' else [32, 40, 64, 128, 1024, 8192, 16384]):
        for w0 in range(1, 41, 8):
            yield {'stratum': 'row-width', 'index': i, 'kind': 'rows', 'mx': mx, 'widths': list(range(w0, min(w0 + 8, 41)))}
            i += 1
    # short no-format payloads x short names
    for mx in ([32, 8192] if tier == 'quick' else [32, 64, 128, 8192]):
        for nl in range(1, 9):
            yield {'stratum': 'nf-short', 'index': i, 'kind': 'nf', 'mx': mx, 'name_len': nl,
                   'payload_lens': list(range(0, 31))}
            i += 1
    # the size of the FILE relative to the output chunk (less than one chunk ... many chunks), the chunk size given as an
    # integer and as a float of integral value: whether a specification can be written must not depend on how many times
    # the buffer is flushed
    for mx in ([64, 8192] if tier == 'quick' else [20, 64, 256, 8192, 16384]):
        yield {'stratum': 'file-size-vs-output-chunk', 'index': i, 'kind': 'chunk-forms', 'mx': mx}
        i += 1
    # long names
    for nl in ([1, 2, 100, 127, 128, 129, 200, 254, 255] if tier == 'quick' else list(range(1, 256, 1))):
        yield {'stratum': 'name-length', 'index': i, 'kind': 'names', 'name_len': nl}
        i += 1
    # writer level: bodies around multiples of capacity, incl. many capacities
    for mx in ([32, 36, 64, 128, 8192] if tier == 'quick' else [32, 34, 36, 38, 40, 48, 64, 100, 128, 256, 8192, 16384]):
        yield {'stratum': 'writer-big', 'index': i, 'kind': 'writer', 'mx': mx}
        i += 1
    # very wide rows (a row of 64 KiB .. several MiB), default input chunk size: one record of many capacities per row
    wide = [65535, 65536, 2 ** 20 - 9, 2 ** 20 - 1, 2 ** 20, 2 ** 20 + 1, 1200001] if tier == 'quick' else \
        [65535, 65536, 2 ** 19 + 1, 2 ** 20 - 9, 2 ** 20 - 2, 2 ** 20 - 1, 2 ** 20, 2 ** 20 + 1, 1200001, 2 ** 21 - 1, 2 ** 21, 2 ** 21 + 1,
         2 ** 22 + 3, 2 ** 23 + 1, 2 ** 24 + 5]
    for wb in wide:
        yield {'stratum': 'huge-row', 'index': i, 'kind': 'huge', 'width': wb, 'mx': 16384 if (wb % 2 or wb > 2 ** 22) else 8192}
        i += 1
    # numbers of records: K logical files x N rows (x an empty set left by a rejected call x no-format records) -- how many
    # records a file has is a size coincidence as well
    for K in ([1, 2, 3, 4] if tier == 'quick' else [1, 2, 3, 4, 5, 7, 10]):
        yield {'stratum': 'record-count-grid', 'index': i, 'kind': 'count-grid', 'K': K, 'Ns': list(range(1, 17 if tier == 'quick' else 70))}
        i += 1
    for k in range(60 if tier == 'quick' else 1500):
        yield {'stratum': 'random', 'index': k, 'kind': 'random'}


def classify_exc(wout):
    t, msg = wout[1], wout[2]
    if 'cannot be shorter than 12' in msg:
        return 'short-body-lt-12'
    if 'cannot be less than 24' in msg:
        return 'capacity-lt-24'
    return f'exc:{t}:{msg[:40]}'


def run_case(case):
    from vf import harness, oracle
    seed = case.get('seed', 0)
    obs, sigs, vio = {}, [], []
    evals = 0

    def bump(k):
        obs[k] = obs.get(k, 0) + 1

    def judge(run, sig, what, whole_file=True):
        nonlocal evals
        evals += 1
        sigs.append(sig)
        if run.wout[0] != 'ok':
            mech = classify_exc(run.wout)
            vio.append({'prop': PROP, 'kind': 'valid-spec-not-writable', 'mech': mech,
                        'detail': f'{what}: {run.wout[1]}: {run.wout[2][:200]}'})
            bump('raised:' + mech)
            return
        bump('write-ok')
        if getattr(run, 'declared_mismatch', None):
            # the write loop was promised another number of records than it got: the progress display aborts the write
            # whenever it happens to refresh beyond the promised number (which depends on the record count and on timing)
            d_, n_ = run.declared_mismatch[0]
            vio.append({'prop': PROP, 'kind': 'declared-record-count', 'mech': 'declared-record-count',
                        'detail': f'{what}: {d_} records announced to the write loop, {n_} passed through it'})
        else:
            bump('declared-record-count-checked')
        # "written successfully": the file must be well-formed physically AND every record must come back whole
        oracle.check_c01(run)
        oracle.check_c02(run)
        for v in run.by_prop('C01') + run.by_prop('C02'):
            vio.append({'prop': PROP, 'kind': 'written-file-malformed', 'mech': v.mech, 'detail': f'{what}: {v.detail}'})
        # ... and every record must decode (a name whose length is mis-encoded still tiles the visible records nicely)
        if not whole_file:
            return          # (writer-level sequences of raw records are not logical files)
        oracle.decode(run)
        if run.stage_error is not None:
            e = run.stage_error[1]
            vio.append({'prop': PROP, 'kind': 'written-file-undecodable', 'mech': 'undecodable:' + getattr(e, 'kind', type(e).__name__),
                        'detail': f'{what}: {e}'})
        elif run.lfs is not None:
            bump('file-decoded')

    def small_spec(mx, rows=2, dtype='<f8', width=None, chname='CH1'):
        sp = gen.minimal(mx, rows=rows, dtype=dtype, width=width, output_chunk_size=max(mx, 4096))
        sp['ops'][1]['name'] = chname
        return sp

    k = case['kind']
    if k == 'mx':
        for mx in case['mxs']:
            run = harness.execute(small_spec(mx), want_taps=True)
            if mx < 32:
                bump('mx-20..30')
            if mx == 32:
                bump('mx-32')
            if mx == 16384:
                bump('mx-16384')
            judge(run, f'mx:{mx}', f'record length {mx}')
    elif k == 'badmx':
        for mx in case['mxs']:
            run = harness.execute(small_spec(mx), want_taps=False)
            evals += 1
            bump('invalid-mx-tried')
            if run.wout[0] == 'ok':
                vio.append({'prop': PROP, 'kind': 'invalid-record-length-accepted', 'mech': 'invalid-mx-accepted',
                            'detail': f'max_record_length={mx} was written'})
    elif k == 'rows':
        mx = case['mx']
        for wbytes in case['widths']:
            # one uint8 channel of width w (w=1: scalar) -> row body = OBNAME(>=4) + frame no + w bytes
            width = None if wbytes == 1 else wbytes
            sp = small_spec(mx, rows=3, dtype='|u1', width=width, chname='C')
            sp['ops'][2]['name'] = 'F'
            run = harness.execute(sp, want_taps=True)
            lens = [len(e[2]) for e in (run.lr_events or []) if not e[0]]
            if wbytes + 5 < 12:
                bump('body-lt-12')
            if (wbytes + 5) % 2:
                bump('odd-body')
            judge(run, f'rows:{mx}:{wbytes}', f'frame of one uint8 channel, {wbytes} bytes per row, record length {mx}')
    elif k == 'nf':
        mx, nl = case['mx'], case['name_len']
        for pl in case['payload_lens']:
            sp = small_spec(mx)
            kk = len(sp['ops'])
            sp['ops'].append(gen.nf_op('N' * nl))
            sp['ops'].append(gen.nf_data_op(kk, bytes((i * 5 + 1) & 0xFF for i in range(pl))))
            run = harness.execute(sp, want_taps=True)
            if nl + 3 + pl < 12:
                bump('body-lt-12')
            if (nl + 3 + pl) % 2:
                bump('odd-body')
            judge(run, f'nf:{mx}:{nl}:{pl}', f'no-format payload of {pl} bytes under a {nl}-character name, record length {mx}')
    elif k == 'chunk-forms':
        mx = case['mx']
        for ocs in (max(mx, 1024), float(max(mx, 1024)), max(mx, 4096), float(max(mx, 4096)), float(mx), 1e5):
            for pl in (10, int(ocs) - 600, int(ocs) - 100, int(ocs) + 10, 3 * int(ocs) + 5):
                if pl < 0:
                    continue
                sp = small_spec(mx, rows=3)
                kk = len(sp['ops'])
                sp['ops'].append(gen.nf_op('PACKET'))
                sp['ops'].append(gen.nf_data_op(kk, bytes((i * 3 + 7) & 0xFF for i in range(pl))))
                sp['write']['output_chunk_size'] = ocs
                run = harness.execute(sp, want_taps=True)
                if isinstance(ocs, float) and run.data is not None and len(run.data) > ocs:
                    bump('float-chunk-size-flushed-mid-write')
                if run.data is not None and len(run.data) > 3 * ocs:
                    bump('file-of-several-chunks')
                judge(run, f'chunk:{mx}:{ocs!r}:{pl}', f'file with a {pl}-byte packet, record length {mx}, output_chunk_size={ocs!r}')
    elif k == 'names':
        nl = case['name_len']
        for which in ('channel', 'frame', 'origin', 'set_name'):
            sp = small_spec(8192)
            nm = ('N' * nl)
            if which == 'channel':
                sp['ops'][1]['name'] = nm
            elif which == 'frame':
                sp['ops'][2]['name'] = nm
            elif which == 'origin':
                sp['ops'][0]['name'] = nm
            else:
                sp['ops'][1]['set_name'] = nm
            run = harness.execute(sp, want_taps=True)
            if nl == 255:
                bump('name-255')
            if nl >= 128:
                bump('name-ge-128')
            judge(run, f'name:{which}:{nl}', f'{which} name of {nl} characters')
    elif k == 'huge':
        mx, wb = case['mx'], case['width']
        for dtype, width in (('|u1', wb), ('<f4', max(2, wb // 4))):
            sp = small_spec(mx, rows=2, dtype=dtype, width=width, chname='WIDE')
            sp['write']['output_chunk_size'] = 2 ** 20
            run = harness.execute(sp, want_taps=False)
            bump('row-ge-64KiB')
            if width * (1 if dtype == '|u1' else 4) >= 2 ** 20:
                bump('row-ge-1MiB')
            judge(run, f'huge:{mx}:{dtype}:{wb}', f'frame rows of {width} x {dtype} ({wb} bytes), record length {mx}, default input chunk size')
    elif k == 'count-grid':
        K = case['K']
        r = gen.rng(seed, PROP, case['stratum'], case['index'])
        for N in case['Ns']:
            for variant in ('plain', 'rejected-call', 'no-format'):
                sp = gen.base_spec(8192, lfs=[{'fh_id': f'LF{j}'} for j in range(K)])
                sp['write'] = {'output_chunk_size': 2 ** 16}
                for j in range(K):
                    ops = sp['ops']
                    ops.append(gen.origin_op(f'ORIGIN-{j}', lf=j, fsn=j + 1)); ops[-1]['set_name'] = f'LF{j}'
                    ops.append(gen.channel_op(f'CH-{j}', '|u1', (N,), lf=j, fill={'kind': 'pos', 'tag': j})); ops[-1]['set_name'] = f'LF{j}'
                    ops.append(gen.frame_op(f'FRAME-{j}', [len(ops) - 1], lf=j)); ops[-1]['set_name'] = f'LF{j}'
                if variant == 'rejected-call':
                    ops.append({'op': 'zone', 'lf': 0, 'name': 'REJECTED', 'set_name': 'LF0', 'attrs': {'domain': 'NOT-A-DOMAIN'}, 'expect': 'reject'})
                elif variant == 'no-format':
                    ops.append(gen.nf_op('NF', lf=K - 1)); ops[-1]['set_name'] = f'LF{K - 1}'
                    for q in range(r.choice([1, 2, 3])):
                        ops.append(gen.nf_data_op(len(ops) - 1 - q, b'x' * q, lf=K - 1))
                run = harness.execute(sp, want_taps=False)
                bump('record-count-grid')
                if K > 1:
                    bump('record-count-grid-multi-lf')
                judge(run, f'count:{K}:{N}:{variant}', f'{K} logical file(s) x {N} rows ({variant})')
    elif k == 'writer':
        mx = case['mx']
        cap = mx - 8
        lens = sorted({max(12, m * cap + d) for m in (1, 2, 3, 5, 9, 17) for d in (-13, -12, -11, -1, 0, 1, 11, 12, 13)})
        for L in lens:
            body = bytes((i * 3 + 1) & 0xFF for i in range(L))
            run = harness.write_records(mx, [(False, 0, body)], output_chunk_size=max(mx, 4096))
            if L > 3 * cap:
                bump('body-gt-3cap')
            if L % 2:
                bump('odd-body')
            judge(run, f'writer:{mx}:{L}', f'record body of {L} bytes, record length {mx}', whole_file=False)
    else:
        r = gen.rng(seed, PROP, case['stratum'], case['index'])
        mx = 2 * r.randint(10, 8192) if r.random() < 0.5 else r.choice([20, 22, 24, 26, 28, 30, 32, 34, 64, 128])
        dt = r.choice(gen.DTYPES)
        width = r.choice([None, None, 1, 2, 3, 7])
        sp = small_spec(mx, rows=r.randint(1, 5), dtype=gen.dtstr(dt, r.choice('<>')), width=width,
                        chname='C' * r.choice([1, 2, 5, 30, 200]))
        kk = len(sp['ops'])
        sp['ops'].append(gen.nf_op('N' * r.choice([1, 2, 3, 9])))
        for j in range(r.randint(0, 4)):
            sp['ops'].append(gen.nf_data_op(kk, gen.payload_bytes(r, r.choice([0, 1, 2, 3, 5, 8, 9, 20, mx, 3 * mx + 1]), j)))
        run = harness.execute(sp, want_taps=True)
        if mx < 32:
            bump('mx-20..30')
        judge(run, f'random:{"lt32" if mx < 32 else "ge32"}:{dt}:{width}', f'random small spec, record length {mx}')
    sample = {'kind': k, 'case': {kk: (vv if not isinstance(vv, list) else vv[:6]) for kk, vv in case.items()}}
    return {'evals': evals, 'violations': vio, 'obs': obs, 'sigs': sorted(set(sigs)), 'sample': sample}
