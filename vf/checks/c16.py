"""C16 -- no-format payloads exact, ordered, under their object (DESIGN.md section 5, C16)."""
from __future__ import annotations
from vf import gen

PROP = 'C16'
META = {
    'level': 'exploration',
    'rule': ('one evaluation = one written file whose decoded NOFMT records are compared with the ordered payload '
             'list of the specification; signature = (record length, #objects, sorted payload length classes, '
             'payload kinds); non-trivial when a payload is empty, shorter than 8 bytes or spans several segments'),
    'required_obs': {'quick': ['c16-empty', 'c16-short', 'c16-ends-01', 'c16-multi-segment', 'c16-multi-object',
                               'c16-str', 'c16-bytearray', 'c16-payload', 'c16-same-named-objects', 'c16-identity-change-then-rewrite', 'c16-buffer-reused-by-caller', 'c16-via-data-attribute', 'c16-several-no-format-sets']},
    'exhaustive_windows': {
        'quick': ['payload lengths 0..16 x name lengths 1..4 (single payload)'],
        'thorough': ['payload lengths 0..40 x name lengths 1..10 (single payload)',
                     'payload lengths cap-5..cap+5, 2cap-5..2cap+5 for record lengths 20..64'],
    },
    'assumptions': ['strict reader splits an IFLR body into OBNAME + payload per RP66 V1 3.3'],
}
META['required_obs']['thorough'] = META['required_obs']['quick']


def cases(tier, seed):
    i = 0
    nl_max, pl_max = (4, 16) if tier == 'quick' else (10, 40)
    for nl in range(1, nl_max + 1):
        yield {'stratum': 'short-window', 'index': i, 'kind': 'window', 'name_len': nl, 'plens': list(range(0, pl_max + 1)),
               'mx': 8192}
        i += 1
        yield {'stratum': 'short-window', 'index': i, 'kind': 'window', 'name_len': nl, 'plens': list(range(0, pl_max + 1)),
               'mx': 32}
        i += 1
    for mx in ([20, 32, 64] if tier == 'quick' else list(range(20, 66, 2))):
        cap = mx - 8
        pl = sorted({max(0, k * cap + d - 4) for k in (1, 2, 3) for d in range(-5, 6)})
        yield {'stratum': 'cap-window', 'index': i, 'kind': 'window', 'name_len': 1, 'plens': pl, 'mx': mx}
        i += 1
    for k in range(150 if tier == 'quick' else 4000):
        yield {'stratum': 'random', 'index': k, 'kind': 'random'}
    # write; the no-format objects get other names / origins (or more payloads); write again
    for k in range(50 if tier == 'quick' else 1200):
        yield {'stratum': 'identity-change-then-rewrite', 'index': k, 'kind': 'random', 'rewrite': True}


def run_case(case):
    from vf import harness, oracle
    seed = case.get('seed', 0)
    obs, sigs, vio = {}, [], []
    evals = 0

    def go(sp, sig, nontrivial, later=None):
        nonlocal evals
        run = harness.execute(sp)
        if later is not None and run.data is not None:
            run = harness.rewrite(run, later)
            obs['c16-identity-change-then-rewrite'] = obs.get('c16-identity-change-then-rewrite', 0) + 1
        evals += 1
        if run.built is not None and run.built.error is None:
            for op_, out_ in zip(sp['ops'], run.built.outcomes):
                if op_.get('op') == 'nf_data' and out_[0] != 'ok' and op_.get('expect') != 'reject':
                    # every payload of this workload is legitimate (bytes / bytearray / ASCII text for an object of the same
                    # logical file): data that are refused do not come back at all
                    vio.append({'prop': PROP, 'kind': 'valid-payload-refused', 'mech': 'payload-refused:' + out_[1],
                                'detail': f'add_no_format_frame_data refused a {op_.get("as")} payload'
                                          f'{" inside the high-compatibility context" if op_.get("in_hc") else ""}: {out_[1]}: {out_[2][:160]}'})
        if run.data is None:
            obs['write-raised:%s:%s' % (run.wout[1], run.wout[2][:50])] = obs.get('write-raised', 0) + 1
            # every specification of this workload is valid: payloads that cannot be written at all are not "exact, in order,
            # under their object" either
            vio.append({'prop': PROP, 'kind': 'valid-no-format-spec-not-writable', 'mech': 'not-writable:' + run.wout[1],
                        'detail': f'{run.wout[1]}: {run.wout[2][:200]}'})
            return
        oracle.check_c16(run)
        if run.stage_error is not None:
            e_ = run.stage_error[1]
            vio.append({'prop': PROP, 'kind': 'records-undecodable', 'mech': 'undecodable:' + getattr(e_, 'kind', type(e_).__name__),
                        'detail': f'the written file does not decode, the payloads cannot be recovered: {e_}'})
        for k, v in run.obs.items():
            obs[k] = obs.get(k, 0) + v
        if any(len(r.segments) > 1 for r in (run.records or []) if not r.explicit and r.type == 1):
            obs['c16-multi-segment'] = obs.get('c16-multi-segment', 0) + 1
            nontrivial = True
        if nontrivial:
            sigs.append(sig)
        vio.extend(v.as_dict() for v in run.by_prop(PROP))

    if case['kind'] == 'window':
        for pl in case['plens']:
            sp = gen.minimal(case['mx'], rows=1, output_chunk_size=2 ** 14)
            k = len(sp['ops'])
            sp['ops'].append(gen.nf_op('N' * case['name_len']))
            sp['ops'].append(gen.nf_data_op(k, gen.payload_bytes(None, pl, pl)))
            go(sp, f"w:{case['mx']}:{case['name_len']}:{pl}", pl < 8)
        sample = {'kind': 'window', 'record_length': case['mx'], 'name_len': case['name_len'], 'payload_lengths': case['plens'][:10]}
    else:
        r = gen.rng(seed, PROP, case['stratum'], case['index'])
        mx = r.choice([20, 24, 32, 40, 64, 128, 512, 8192, 16384])
        cap = mx - 8
        sp = gen.minimal(mx, rows=r.randint(1, 3), output_chunk_size=r.choice([mx, 2 ** 14, 2 ** 16]))
        nobj = r.choice([1, 1, 2, 3, 4])
        first = len(sp['ops'])
        same = nobj > 1 and r.random() < 0.4      # objects sharing one name (told apart by their copy numbers)
        shared_name = gen.name(r, 'NFSAME', r.choice([6, 12, 40]))
        if same:
            obs['c16-same-named-objects'] = obs.get('c16-same-named-objects', 0) + 1
        multi_set = (not same) and nobj > 1 and r.random() < 0.5     # the objects live in several NO-FORMAT sets
        for j in range(nobj):
            sp['ops'].append(gen.nf_op(shared_name if (same and (j == 0 or r.random() < 0.7)) else gen.name(r, f'NF{j}', r.choice([3, 4, 5, 12, 40])),
                                       **({'consumer_name': 'CN%d' % j} if r.random() < 0.5 else {})))
            if multi_set:
                sn = [None, 'NF-SET-B', 'NF-SET-C'][j % 3] if j < 3 else r.choice([None, 'NF-SET-B', 'NF-SET-C'])
                if sn:
                    sp['ops'][-1]['set_name'] = sn
        if multi_set:
            obs['c16-several-no-format-sets'] = obs.get('c16-several-no-format-sets', 0) + 1
        npay = r.choice([0, 1, 2, 5, 12, 40])
        classes = set()
        kinds = set()
        for j in range(npay):
            n = r.choice([0, 1, 2, 7, 8, 9, 11, 12, 13] + [max(0, cap + d) for d in range(-5, 6)] + [3 * cap + 1, r.randint(0, 300)])
            end = r.choice([None, None, b'\x01', b'\x00', b'\x01\x01\x01', b'\x02'])
            as_ = r.choice(['bytes', 'bytes', 'bytearray', 'str'])
            pb = gen.payload_bytes(r, n, j, end)
            if as_ == 'str':
                pb = bytes((b % 95) + 32 for b in pb)     # printable ASCII
                obs['c16-str'] = obs.get('c16-str', 0) + 1
            if as_ == 'bytearray':
                obs['c16-bytearray'] = obs.get('c16-bytearray', 0) + 1
            sp['ops'].append(gen.nf_data_op(first + r.randrange(nobj), pb, as_=as_))
            if r.random() < 0.25:
                # the data are added while the high-compatibility context is open (it restricts NAMES, not transported data)
                sp['ops'][-1]['in_hc'] = True
                obs['c16-added-inside-hc-context'] = obs.get('c16-added-inside-hc-context', 0) + 1
                if as_ == 'str':
                    obs['c16-text-added-inside-hc-context'] = obs.get('c16-text-added-inside-hc-context', 0) + 1
            if r.random() < 0.3:
                # the payload put into the record's `data` attribute after the record has been created (documented route)
                sp['ops'][-1]['via'] = 'data-attribute'
                obs['c16-via-data-attribute'] = obs.get('c16-via-data-attribute', 0) + 1
            if as_ == 'bytearray' and r.random() < 0.5:
                # the caller re-uses its buffer after handing it over: what was supplied is what counts
                sp['ops'].append({'op': 'scribble', 'target': len(sp['ops']) - 1})
                obs['c16-buffer-reused-by-caller'] = obs.get('c16-buffer-reused-by-caller', 0) + 1
            classes.add('0' if n == 0 else '<8' if n < 8 else '<=cap' if n <= cap else '>cap')
            kinds.add(as_)
        if nobj > 1 and npay > 1:
            obs['c16-multi-object'] = obs.get('c16-multi-object', 0) + 1
        later = None
        if case.get('rewrite'):
            # a second origin to move objects to
            sp['ops'].insert(1, gen.origin_op('ORIGIN-2', fsn=2, origin_reference=r.choice([5, 130])))
            for o in sp['ops']:
                if 'target' in o:
                    o['target'] += 1
            for o in sp['ops']:
                if o['op'] == 'frame':
                    o['attrs']['channels']['$tuple'] = [{'$ref': c_['$ref'] + 1} for c_ in o['attrs']['channels']['$tuple']]
            first += 1
            later = []
            for j in range(nobj):
                c_ = r.random()
                if c_ < 0.5:
                    later.append({'op': 'setattr', 'target': first + j, 'field': 'name', 'value': f'RENAMED-NF-{j}'})
                elif c_ < 0.8:
                    later.append({'op': 'setattr', 'target': first + j, 'field': 'origin_reference', 'value': {'$origin_of': 1}})
            if r.random() < 0.5:
                later.append(gen.nf_data_op(first + r.randrange(nobj), gen.payload_bytes(r, r.choice([0, 5, 40]), 99)))
        go(sp, f'r:{mx}:{nobj}:{sorted(classes)}:{sorted(kinds)}:{bool(later)}', bool(classes & {'0', '<8', '>cap'}) or bool(later), later)
        sample = {'kind': 'random', 'record_length': mx, 'objects': nobj,
                  'payloads': [(o['target'], (o['payload'] if isinstance(o['payload'], str) else o['payload']['$bytes'])[:24])
                               for o in sp['ops'] if o['op'] == 'nf_data'][:6]}
    return {'evals': evals, 'violations': vio, 'obs': obs, 'sigs': sorted(set(sigs)), 'sample': sample}
