"""C17 -- high-compatibility mode enforces its restrictions and never leaks (DESIGN.md section 5, C17)."""
from __future__ import annotations
import copy
import re
from vf import gen, schema

PROP = 'C17'
ASPECTS = ['object-name', 'set-identifier', 'header-id', 'signed-int', 'channel-in-no-frame', 'channel-in-two-frames',
           'non-uniform-index', 'non-uniform-index-with-spacing', 'attr-units', 'channel-units', 'index-type', 'equipment-type', 'equipment-location',
           'ident-attribute', 'renamed-after-creation', 'header-id-reassigned', 'set-identifier-reassigned']
PATTERNS = ['plain', 'nested', 'exception-at-build', 'exception-at-write', 'decorator', 'generator-abandoned',
            'interleaved-outside-file', 'assign-after-leaving', 'created-outside-assigned-inside', 'nested-decorators',
            'decorator-inside-with', 'with-inside-decorator', 'retry-inside', 'outside-then-inside', 'twice-outside',
            'managers-built-up-front', 'manager-created-inside-entered-after']
META = {
    'level': 'exploration',
    'rule': ('one evaluation = one (specification, context pattern) executed inside the high-compatibility context and outside it: '
             'inside, a breach must raise and a file that is written must satisfy every restriction when decoded; outside, the '
             'same input must be accepted with >= 1 WARNING log record; the mode flag after every with / decorated call / '
             'abandoned generator must equal the flag before (complete transition log from a recording __setattr__ on the '
             'global configuration); signature = (sorted aspects breached, context pattern); non-trivial when >= 1 aspect is '
             'breached or the pattern is not plain'),
    'required_obs': {'quick': ['compliant-hc-file-decoded', 'flag-transitions-recorded'] + ['breach-' + a for a in ASPECTS]
                     + ['pattern-' + p for p in PATTERNS] + ['inside-raised', 'outside-warned', 'repeated-write-compared']},
    'assumptions': ['enumerated values are judged only for the values the generator itself chose from known-standard and '
                    'known-non-standard lists (no copy of the full RP66 units table is trusted)',
                    'set names are outside C17\'s domain (the statement lists objects, set identifier, header id)'],
}
META['required_obs']['thorough'] = META['required_obs']['quick']
HC_RE = re.compile(r'[A-Z0-9_-]+')


def cases(tier, seed):
    i = 0
    for a in ASPECTS:
        for p in (['plain'] if tier == 'quick' else PATTERNS):
            yield {'stratum': 'single-aspect', 'index': i, 'kind': 'aspects', 'aspects': [a], 'pattern': p}
            i += 1
    for j, a in enumerate(ASPECTS):
        for b in ASPECTS[j + 1:]:
            if tier == 'quick' and (i % 3):
                i += 1
                continue
            yield {'stratum': 'aspect-pairs', 'index': i, 'kind': 'aspects', 'aspects': [a, b], 'pattern': 'plain'}
            i += 1
    # every non-standard enumerated value of the catalogue once, on its own
    for a, vals in (('equipment-type', ['Gizmo', 'tool', 'TOOL', 'Pane']), ('equipment-location', ['Moon', 'well', 'WELL']),
                    ('index-type', ['MY-INDEX', 'DEPTH', 'borehole-depth'])):
        for v in vals:
            yield {'stratum': 'enumerated-non-members', 'index': i, 'kind': 'aspects', 'aspects': [a], 'pattern': 'plain', 'force': v}
            i += 1
    for p in PATTERNS:
        for k in range(3 if tier == 'quick' else 30):
            yield {'stratum': 'patterns', 'index': i, 'kind': 'aspects', 'aspects': [], 'pattern': p}
            i += 1
    # breaches that are detected when the file is written x one DLISFile written twice
    for a in ('signed-int', 'channel-in-no-frame', 'channel-in-two-frames', 'non-uniform-index'):
        for p in ('retry-inside', 'outside-then-inside', 'twice-outside'):
            for k in range(1 if tier == 'quick' else 10):
                yield {'stratum': 'repeated-writes', 'index': i, 'kind': 'aspects', 'aspects': [a], 'pattern': p}
                i += 1
    for k in range(60 if tier == 'quick' else 2000):
        yield {'stratum': 'random', 'index': k, 'kind': 'random'}


def compliant_spec(r):
    """A spec that satisfies every HC restriction."""
    sp = gen.base_spec(r.choice([128, 8192]), set_identifier=gen.name(r, 'SUL', r.choice([3, 12]), hc=True),
                       lfs=[{'fh_id': gen.name(r, 'HDR', 8, hc=True)}])
    n = r.choice([3, 5, 8])
    no = r.choice([1, 2, 3])
    for j in range(no):
        sp['ops'].append({'op': 'origin', 'name': f'ORIGIN-{j}', 'attrs': {'creation_time': {'$dt': [2020, 1, 2, 3, 4, 5, 0], 'tz': 0}}})
    ops = sp['ops']
    ops.append(gen.channel_op('DEPTH', '<f8', (n,), fill={'kind': 'lin', 'start': 100.0, 'step': 0.5}, attrs={'units': 'm'}))
    ops.append(gen.channel_op('RPM', gen.dtstr(r.choice(['float32', 'uint16', 'uint8', 'float64']), '<'), (n,), fill={'kind': 'pos', 'tag': 2}))
    ops.append(gen.channel_op('IMG', '<u2', (n, 3), fill={'kind': 'pos', 'tag': 3}))
    d, c1, c2 = len(ops) - 3, len(ops) - 2, len(ops) - 1
    ops.append(gen.frame_op('MAIN-FRAME', [d, c1, c2], index_type='BOREHOLE-DEPTH'))
    ops.append(gen.channel_op('T2', '<f4', (n,), fill={'kind': 'pos', 'tag': 5}))
    ops.append(gen.frame_op('SECOND', [len(ops) - 1]))
    ops.append({'op': 'equipment', 'name': 'EQ-1', 'attrs': {'eq_type': 'Tool', 'location': 'Well', 'serial_number': 'SN-1',
                                                               'height': {'$setup': {'value': 1.5, 'units': 'm'}, 'route': 'dict'}}})
    ops.append({'op': 'axis', 'name': 'AXIS-1', 'attrs': {'axis_id': 'AX_1', 'coordinates': [1, 2, 3]}})
    ops.append({'op': 'zone', 'name': 'ZONE-A', 'attrs': {'domain': 'BOREHOLE-DEPTH', 'maximum': 10.0, 'minimum': 1.0}})
    ops.append({'op': 'calibration_coefficient', 'name': 'COEF', 'attrs': {'label': 'GAIN', 'coefficients': [1.0, 2.0]}})
    sp['write'] = {'output_chunk_size': 2 ** 16}
    return sp


def _fresh(ops, name):
    """`name`, made different from every name in use: two channels of one frame under one (bad) name are refused in and out
    of the context, for a reason that has nothing to do with the mode (false alarm of thorough run 5)."""
    used = {o.get('name') for o in ops} | {o.get('value') for o in ops if o['op'] == 'setattr'}
    while name in used:
        name += ' b'
    return name


def breach(sp, a, r):
    ops = sp['ops']
    ch = [i for i, o in enumerate(ops) if o['op'] == 'channel']
    fr = [i for i, o in enumerate(ops) if o['op'] == 'frame']
    if a == 'object-name':
        i = r.choice([k for k, o in enumerate(ops) if o['op'] in schema.TYPES])
        ops[i]['name'] = _fresh(ops, r.choice(['lower case', 'Mixed', 'DOT.TED', 'SPA CE', 'hash#']))
    elif a == 'set-identifier':
        sp['sul']['set_identifier'] = r.choice(['Default Storage Set', 'lower', 'A.B'])
    elif a == 'header-id':
        sp['lfs'][0]['fh_id'] = r.choice(['My header', 'x', 'HDR 1'])
    elif a == 'signed-int':
        ops[ch[1]]['data']['dtype'] = r.choice(['<i2', '<i4', '|i1', '>i4'])
    elif a == 'channel-in-no-frame':
        n = ops[ch[0]]['data']['shape'][0]
        # (half of the time under the NAME of a channel that is in a frame: they are told apart by their copy numbers)
        ops.append(gen.channel_op('LONER' if r.random() < 0.5 else ops[ch[1]]['name'], '<f4', (n,), fill={'kind': 'pos', 'tag': 9}))
    elif a == 'channel-in-two-frames':
        ops[fr[1]]['attrs']['channels']['$tuple'].append({'$ref': ch[1]})
    elif a == 'non-uniform-index':
        n = ops[ch[0]]['data']['shape'][0]
        ops[ch[0]]['data']['fill'] = {'kind': 'seq', 'values': [100.0 + k * 0.5 + (3.0 if k == n - 1 else 0.0) for k in range(n)]}
    elif a == 'non-uniform-index-with-spacing':
        # the index is just as irregular, but the frame comes with a SPACING of the user's own
        n = ops[ch[0]]['data']['shape'][0]
        ops[ch[0]]['data']['fill'] = {'kind': 'seq', 'values': [100.0 + k * 0.5 + (3.0 if k == n - 1 else 0.0) for k in range(n)]}
        ops[fr[0]]['attrs']['spacing'] = r.choice([0.5, {'$setup': {'value': 0.5, 'units': 'm'}, 'route': r.choice(['dict', 'AttrSetup'])}])
    elif a == 'attr-units':
        eq = next(o for o in ops if o['op'] == 'equipment')
        eq['attrs']['height'] = {'$setup': {'value': 1.5, 'units': r.choice(gen.NONSTD_UNITS)}, 'route': r.choice(['dict', 'AttrSetup'])}
    elif a == 'channel-units':
        ops[ch[0]]['attrs']['units'] = r.choice(gen.NONSTD_UNITS)
    elif a == 'index-type':
        ops[fr[0]]['attrs']['index_type'] = r.choice(['MY-INDEX', 'DEPTH', 'borehole-depth'])
    elif a == 'equipment-type':
        next(o for o in ops if o['op'] == 'equipment')['attrs']['eq_type'] = r.choice(['Gizmo', 'tool', 'TOOL', 'Pane'])   # ('Pane': RP66 has 'Panel')
    elif a == 'equipment-location':
        next(o for o in ops if o['op'] == 'equipment')['attrs']['location'] = r.choice(['Moon', 'well', 'WELL'])
    elif a == 'renamed-after-creation':
        # a compliant object is given a non-compliant name AFTER it has been created
        i = r.choice([k for k, o in enumerate(ops) if o['op'] in ('zone', 'equipment', 'axis', 'frame', 'channel', 'calibration_coefficient')])
        ops.append({'op': 'setattr', 'target': i, 'field': 'name', 'value': _fresh(ops, r.choice(['lower case', 'Mixed', 'DOT.TED']))})
    elif a == 'header-id-reassigned':
        ops.append({'op': 'set_header', 'lf': 0, 'field': 'header_id', 'value': r.choice(['My header', 'x', 'HDR 1'])})
    elif a == 'set-identifier-reassigned':
        ops.append({'op': 'set_sul', 'field': 'set_identifier', 'value': r.choice(['Default Storage Set', 'lower', 'A.B'])})
    elif a == 'ident-attribute':
        which = r.choice(['axis', 'equipment', 'calibration_coefficient'])
        o = next(o for o in ops if o['op'] == which)
        kw = {'axis': 'axis_id', 'equipment': 'serial_number', 'calibration_coefficient': 'label'}[which]
        o['attrs'][kw] = r.choice(['lower', 'With Space', 'dot.ted'])


NONSTD = {'units': set(gen.NONSTD_UNITS), 'index': {'MY-INDEX', 'DEPTH', 'borehole-depth'}, 'eqtype': {'Gizmo', 'tool', 'TOOL', 'Pane'},
          'eqloc': {'Moon', 'well', 'WELL'}}


def hc_invariants(run, sp):
    """Breaches visible in a decoded file (oracle (a)).  Returns list of (aspect, detail)."""
    out = []
    ident = run.phys.sul.set_identifier.rstrip(' ')
    if not HC_RE.fullmatch(ident):
        out.append(('set-identifier', repr(ident)))
    # the index data itself (as supplied): an indexed frame written inside the context must be uniformly spaced, whether
    # its SPACING was derived or given.  Only CLEAR non-uniformity counts (a step > 10 % off the median step; the
    # library's own tolerance is ~3 %), so nothing the library may legitimately accept is flagged.
    import numpy as np
    for fi, fo in enumerate(sp['ops']):
        if fo['op'] != 'frame' or fo['attrs'].get('index_type') is None or run.built is None:
            continue
        ci = fo['attrs']['channels']['$tuple'][0]['$ref']
        arr = run.built.arrays.get(ci)
        if arr is None or arr.ndim != 1 or arr.shape[0] < 3:
            continue
        d = np.diff(arr.astype(np.float64))
        med = float(np.median(d))
        if med != 0 and np.all(np.isfinite(d)) and float(np.max(np.abs(d / med - 1.0))) > 0.10:
            out.append(('non-uniform-index-with-spacing' if 'spacing' in fo['attrs'] else 'non-uniform-index',
                        f'indexed frame {fo["name"]}: index steps {sorted(set(np.round(d, 6).tolist()))[:4]} are not uniform'))
    for li, dl in enumerate(run.lfs):
        hid = dl.header.objects[0].attrs['ID'].values[0].rstrip(' ')
        if not HC_RE.fullmatch(hid):
            out.append(('header-id', repr(hid)))
        chan_codes = {}
        in_frames = {}
        supplied_fsn = any('file_set_number' in o.get('attrs', {}) for o in sp['ops'] if o['op'] == 'origin')
        for s in dl.sets[1:]:
            for o in s.objects:
                if not HC_RE.fullmatch(o.name[2]):
                    out.append(('object-name', f'{s.type} {o.name[2]!r}'))
                for a in o.attrs.values():
                    if a.units and a.units in NONSTD['units']:
                        out.append(('attr-units', f'{s.type} {o.name[2]} {a.label}: {a.units!r}'))
                if s.type == 'CHANNEL':
                    rc = o.attrs.get('REPRESENTATION-CODE')
                    chan_codes[tuple(o.name)] = rc.values[0] if rc and rc.values else None
                    u = o.attrs.get('UNITS')
                    if u and u.values and u.values[0] in NONSTD['units']:
                        out.append(('channel-units', repr(u.values[0])))
                if s.type == 'FRAME':
                    for ref in (o.attrs['CHANNELS'].values or []):
                        in_frames[tuple(ref)] = in_frames.get(tuple(ref), 0) + 1
                    it = o.attrs.get('INDEX-TYPE')
                    if it and it.values:
                        if it.values[0] in NONSTD['index']:
                            out.append(('index-type', repr(it.values[0])))
                        spc = o.attrs.get('SPACING')
                        if spc is None or spc.values is None:
                            out.append(('non-uniform-index', f'indexed frame {o.name[2]} has no SPACING'))
                if s.type == 'EQUIPMENT':
                    t, l = o.attrs.get('TYPE'), o.attrs.get('LOCATION')
                    if t and t.values and t.values[0] in NONSTD['eqtype']:
                        out.append(('equipment-type', repr(t.values[0])))
                    if l and l.values and l.values[0] in NONSTD['eqloc']:
                        out.append(('equipment-location', repr(l.values[0])))
                    sn = o.attrs.get('SERIAL-NUMBER')
                    if sn and sn.values and not HC_RE.fullmatch(sn.values[0]):
                        out.append(('ident-attribute', repr(sn.values[0])))
                if s.type == 'AXIS':
                    ai = o.attrs.get('AXIS-ID')
                    if ai and ai.values and not HC_RE.fullmatch(ai.values[0]):
                        out.append(('ident-attribute', repr(ai.values[0])))
                if s.type == 'CALIBRATION-COEFFICIENT':
                    lb = o.attrs.get('LABEL')
                    if lb and lb.values and not HC_RE.fullmatch(lb.values[0]):
                        out.append(('ident-attribute', repr(lb.values[0])))
            if s.type == 'ORIGIN' and not supplied_fsn:
                nums = [o.attrs['FILE-SET-NUMBER'].values[0] for o in s.objects if o.attrs['FILE-SET-NUMBER'].values]
                if nums != list(range(1, len(nums) + 1)):
                    out.append(('file-set-number', f'{nums}'))
        for name, code in chan_codes.items():
            if code in (12, 13, 14):
                out.append(('signed-int', f'channel {name[2]} code {code}'))
            k = in_frames.get(name, 0)
            if k == 0:
                out.append(('channel-in-no-frame', name[2]))
            elif k > 1:
                out.append(('channel-in-two-frames', name[2]))
    return out


class _Recorder:
    """Complete transition log of global_config.high_compat_mode (class swapped for a recording subclass)."""
    installed = False
    log = []

    @classmethod
    def install(cls):
        if cls.installed:
            return
        cls.installed = True
        from dliswriter.configuration import global_config
        base = type(global_config)
        log = cls.log

        class Recording(base):
            def __setattr__(self, k, v):
                if k == 'high_compat_mode':
                    log.append((getattr(self, 'high_compat_mode', None), v))
                object.__setattr__(self, k, v)
        global_config.__class__ = Recording


def run_case(case):
    import logging
    from vf import harness, oracle, spec as S
    from dliswriter import high_compatibility_mode
    from dliswriter.utils.high_compatibility_mode import high_compatibility_mode_decorator
    from dliswriter.configuration import global_config
    seed = case.get('seed', 0)
    obs, vio = {}, []

    def bump(k, n=1):
        obs[k] = obs.get(k, 0) + n

    _Recorder.install()
    del _Recorder.log[:]
    r = gen.rng(seed, PROP, case['stratum'], case['index'])
    sp = compliant_spec(r)
    if case['kind'] == 'random':
        aspects = [a for a in ASPECTS if r.random() < 0.15]
        pattern = r.choice(PATTERNS)
    else:
        aspects, pattern = list(case['aspects']), case['pattern']
    for a in aspects:
        breach(sp, a, r)
        if case.get('force') is not None:
            o_ = next(o for o in sp['ops'] if o['op'] == ('frame' if a == 'index-type' else 'equipment'))
            o_['attrs'][{'equipment-type': 'eq_type', 'equipment-location': 'location', 'index-type': 'index_type'}[a]] = case['force']
        bump('breach-' + a)
    bump('pattern-' + pattern)

    def build_and_write(spec):
        run = harness.execute(copy.deepcopy(spec), want_taps=False)
        # a rejected add_* call is a raise as far as the user is concerned: the run counts as 'raised'
        rej = [(spec['ops'][i]['op'], o[1], o[2][:80]) for i, o in enumerate(run.built.outcomes) if o[0] != 'ok'] \
            if run.built is not None and run.built.error is None else []
        if rej and run.data is not None:
            run.data = None
            run.wout = ('exc', rej[0][1], f'add_{rej[0][0]} rejected: {rej[0][2]}')
        elif rej:
            run.wout = ('exc', rej[0][1], f'add_{rej[0][0]} rejected: {rej[0][2]}')
        return run

    flag_problems = []

    def expect_flag(before, where):
        now = global_config.high_compat_mode
        if now != before:
            flag_problems.append(f'{where}: flag is {now}, was {before} before entering')
            global_config.high_compat_mode = before     # repair so that the rest of the case is meaningful

    # ---- inside the context, with the requested usage pattern
    before = global_config.high_compat_mode
    inside = None
    if pattern == 'plain' or pattern == 'interleaved-outside-file':
        with high_compatibility_mode():
            inside = build_and_write(sp)
        expect_flag(before, 'after with')
    elif pattern == 'nested':
        with high_compatibility_mode():
            with high_compatibility_mode():
                with high_compatibility_mode():
                    pass
                if not global_config.high_compat_mode:
                    flag_problems.append('leaving an inner context switched the mode off inside the outer one')
                    global_config.high_compat_mode = True
            inside = build_and_write(sp)
        expect_flag(before, 'after nested with')
    elif pattern in ('exception-at-build', 'exception-at-write'):
        try:
            with high_compatibility_mode():
                if pattern == 'exception-at-build':
                    b = S.build(sp)
                    raise KeyError('user error while building')
                else:
                    b = S.build(sp)

                    def boom(fn, total, k):
                        raise OSError(5, 'injected')
                    with harness.Taps(boom):
                        w = S.do_write(sp, b, harness.fresh_path(), harness.scratch_dir())
                    raise KeyError('user error after a failed write')
        except KeyError:
            pass
        expect_flag(before, 'after with left by exception')
        with high_compatibility_mode():
            inside = build_and_write(sp)
        expect_flag(before, 'after with')
    elif pattern == 'decorator':
        box = {}

        @high_compatibility_mode_decorator
        def job():
            box['run'] = build_and_write(sp)
            box['flag'] = global_config.high_compat_mode

        @high_compatibility_mode_decorator
        def failing():
            raise KeyError('inside decorated function')
        job()
        expect_flag(before, 'after decorated call')
        try:
            failing()
        except KeyError:
            pass
        expect_flag(before, 'after decorated call that raised')
        inside = box['run']
        if not box.get('flag'):
            flag_problems.append('mode was off inside a decorated function')
    elif pattern in ('nested-decorators', 'decorator-inside-with', 'with-inside-decorator'):
        box = {}

        @high_compatibility_mode_decorator
        def inner(depth=0):
            box.setdefault('flags', []).append(global_config.high_compat_mode)
            if depth:
                inner(depth - 1)        # recursion through the decorator

        @high_compatibility_mode_decorator
        def outer():
            inner(r.choice([0, 1, 2]))
            box['after-inner'] = global_config.high_compat_mode
            box['run'] = build_and_write(sp)

        @high_compatibility_mode_decorator
        def with_inside():
            with high_compatibility_mode():
                pass
            box['after-inner'] = global_config.high_compat_mode
            box['run'] = build_and_write(sp)
        if pattern == 'nested-decorators':
            outer()
        elif pattern == 'decorator-inside-with':
            with high_compatibility_mode():
                inner(1)
                box['after-inner'] = global_config.high_compat_mode
                box['run'] = build_and_write(sp)
        else:
            with_inside()
        expect_flag(before, 'after ' + pattern)
        if box.get('after-inner') is not True:
            flag_problems.append(f'{pattern}: leaving the inner context/decorated call switched the mode off inside the outer one')
        if not all(box.get('flags', [True])):
            flag_problems.append(f'{pattern}: mode was off inside a decorated function')
        inside = box['run']
    elif pattern == 'managers-built-up-front':
        # the context-manager objects are created first and entered later (kept in variables / handed to an ExitStack)
        import contextlib
        outer_cm, inner_cm = high_compatibility_mode(), high_compatibility_mode()
        with outer_cm:
            with inner_cm:
                pass
            if not global_config.high_compat_mode:
                flag_problems.append('leaving an inner context (created before the outer one was entered) switched the mode off inside the outer one')
                global_config.high_compat_mode = True
            inside = build_and_write(sp)
        expect_flag(before, 'after with over managers created up front')
        cms = [high_compatibility_mode() for _ in range(r.choice([2, 3]))]
        with contextlib.ExitStack() as stack:
            for cm in cms:
                stack.enter_context(cm)
            if not global_config.high_compat_mode:
                flag_problems.append('mode off inside an ExitStack of contexts')
        expect_flag(before, 'after ExitStack of managers created up front')
    elif pattern == 'manager-created-inside-entered-after':
        with high_compatibility_mode():
            later = high_compatibility_mode()       # created while the mode is on ...
        expect_flag(before, 'after with')
        with later:                                 # ... entered (and left) when it is off again
            if not global_config.high_compat_mode:
                flag_problems.append('mode off inside a context whose manager was created earlier')
        expect_flag(before, 'after a context whose manager was created inside another context')
        with high_compatibility_mode():
            inside = build_and_write(sp)
        expect_flag(before, 'after with')
    elif pattern == 'generator-abandoned':
        def g():
            with high_compatibility_mode():
                yield 1
                yield 2
        it = g()
        next(it)
        it.close()
        del it
        expect_flag(before, 'after abandoning a generator suspended inside the context')
        with high_compatibility_mode():
            inside = build_and_write(sp)
        expect_flag(before, 'after with')
    elif pattern in ('retry-inside', 'outside-then-inside', 'twice-outside'):
        # ONE DLISFile object (built outside the context) written twice: what the second write does in its mode must be what a
        # freshly built file does in that mode -- a breach refused once is refused again, a warning given once is given again
        def write_in(bb, inside_):
            with harness.capture_logs() as logs_:
                if inside_:
                    try:
                        with high_compatibility_mode():
                            w_ = S.do_write(sp, bb, harness.fresh_path(), harness.scratch_dir())
                    except Exception as e:  # noqa
                        w_ = ('exc', type(e).__name__, str(e)[:200])
                else:
                    w_ = S.do_write(sp, bb, harness.fresh_path(), harness.scratch_dir())
            return w_, len([m for lv, nm, m in logs_ if lv == 'WARNING'])
        modes = {'retry-inside': (True, True), 'outside-then-inside': (False, True), 'twice-outside': (False, False)}[pattern]
        b1 = S.build(copy.deepcopy(sp))
        if b1.error is None and all(o[0] == 'ok' for o in b1.outcomes):
            first_w, first_warn = write_in(b1, modes[0])
            expect_flag(before, 'after first write')
            second_w, second_warn = write_in(b1, modes[1])
            expect_flag(before, 'after second write')
            fresh_w, fresh_warn = write_in(S.build(copy.deepcopy(sp)), modes[1])
            bump('repeated-write-compared')
            lab = f'aspects {aspects or "none"} pattern {pattern}'
            if (second_w[0] == 'ok') != (fresh_w[0] == 'ok'):
                vio.append({'prop': PROP, 'kind': 'breach-not-raised' if second_w[0] == 'ok' else 'mode-leaked',
                            'mech': f'repeated-write:{pattern}:' + ('accepted' if second_w[0] == 'ok' else 'refused'),
                            'detail': f'{lab}: first write {first_w[:2]}, second write of the same DLISFile '
                                      f'({"inside" if modes[1] else "outside"} the context) {second_w[:3]}, a freshly built one {fresh_w[:3]}'})
            elif not modes[1] and second_w[0] == 'ok' and (second_warn > 0) != (fresh_warn > 0):
                vio.append({'prop': PROP, 'kind': 'accepted-without-warning', 'mech': f'repeated-write:{pattern}:no-warning',
                            'detail': f'{lab}: second write outside the context gave {second_warn} WARNING records, a freshly built file {fresh_warn}'})
            if second_w[0] != 'ok':
                bump('inside-raised')
            elif second_warn:
                bump('outside-warned')
        else:
            bump('repeated-write-build-rejected')
        inside = None
    elif pattern in ('assign-after-leaving', 'created-outside-assigned-inside'):
        # the mode that counts is the one in force when a value is assigned, not the one in force when the object was made
        base = compliant_spec(r)
        eq_i = next(i for i, o in enumerate(base['ops']) if o['op'] == 'equipment')
        ch_i = next(i for i, o in enumerate(base['ops']) if o['op'] == 'channel')
        fr_i = next(i for i, o in enumerate(base['ops']) if o['op'] == 'frame')
        soft = [
            {'op': 'assign', 'target': ch_i, 'target_op': 'channel', 'kw': 'units', 'part': 'value', 'value': 'furlong'},
            {'op': 'assign', 'target': fr_i, 'target_op': 'frame', 'kw': 'index_type', 'part': 'value', 'value': 'MY-INDEX'},
            {'op': 'assign', 'target': eq_i, 'target_op': 'equipment', 'kw': 'eq_type', 'part': 'value', 'value': 'Gizmo'},
            {'op': 'assign', 'target': eq_i, 'target_op': 'equipment', 'kw': 'location', 'part': 'value', 'value': 'Moon'},
            {'op': 'assign', 'target': eq_i, 'target_op': 'equipment', 'kw': 'height', 'part': 'units', 'value': 'My Unit'},
        ]
        op = r.choice(soft)
        import logging as _lg
        if pattern == 'assign-after-leaving':
            with high_compatibility_mode():
                b = S.build(base)
            expect_flag(before, 'after with')
            with harness.capture_logs() as logs:
                try:
                    S.run_op(b, len(base['ops']), op, 'inline')
                    res = ('ok',)
                except Exception as e:  # noqa
                    res = ('exc', type(e).__name__, str(e)[:120])
            if res[0] != 'ok':
                vio.append({'prop': PROP, 'kind': 'mode-leaked', 'mech': 'leak:assign-after-leaving',
                            'detail': f"object built inside the context; after leaving it, {op['kw']}.{op['part']} = {op['value']!r} raised {res[1:]}"})
            elif not [m for lv, nm, m in logs if lv == 'WARNING']:
                vio.append({'prop': PROP, 'kind': 'accepted-without-warning', 'mech': 'no-warning:assign-after-leaving',
                            'detail': f"{op['kw']}.{op['part']} = {op['value']!r} accepted outside the context without a WARNING"})
            else:
                bump('outside-warned')
        else:
            b = S.build(base)
            with high_compatibility_mode():
                try:
                    S.run_op(b, len(base['ops']), op, 'inline')
                    res = ('ok',)
                except Exception as e:  # noqa
                    res = ('exc', type(e).__name__, str(e)[:120])
                w = S.do_write(base, b, harness.fresh_path(), harness.scratch_dir()) if res[0] == 'ok' else None
            expect_flag(before, 'after with')
            if res[0] == 'ok' and w is not None and w[0] == 'ok':
                vio.append({'prop': PROP, 'kind': 'breach-not-raised', 'mech': 'not-raised:assigned-inside-to-outside-object',
                            'detail': f"object built outside the context; inside it, {op['kw']}.{op['part']} = {op['value']!r} was accepted "
                                      f"and the file written"})
            else:
                bump('inside-raised')
        aspects = []
    # ---- outside
    outside = build_and_write(sp)
    expect_flag(before, 'after building outside')
    if pattern == 'interleaved-outside-file':
        # a second, non-compliant file built while the first context is long gone must not be restricted
        sp2 = compliant_spec(r)
        breach(sp2, 'object-name', r)
        o2 = build_and_write(sp2)
        if o2.data is None:
            vio.append({'prop': PROP, 'kind': 'mode-leaked', 'mech': 'leak:outside-file-rejected',
                        'detail': f'file with a lower-case name built after the context was left raised {o2.wout[1:3]}'})
    # ---- transition log must be properly nested: every assignment inside a with restores the value it replaced
    log = list(_Recorder.log)
    bump('flag-transitions-recorded', len(log))
    stack = []
    for old, new in log:
        if stack and stack[-1][1] == old and stack[-1][0] == new:
            stack.pop()         # exit: restores what the matching entry replaced
        else:
            stack.append((old, new))
    if stack and not flag_problems:
        flag_problems.append(f'transition log is not properly nested: unmatched {stack[:3]}')
    for p in flag_problems:
        vio.append({'prop': PROP, 'kind': 'mode-flag-not-restored', 'mech': 'flag:' + pattern, 'detail': p})
    # ---- verdicts on the inside / outside outcomes
    label = f'aspects {aspects or "none"} pattern {pattern}'
    if inside is not None:
        if inside.data is not None:
            oracle.decode(inside)
            if inside.lfs is None:
                vio.append({'prop': PROP, 'kind': 'hc-file-undecodable', 'mech': 'undecodable', 'detail': str(inside.stage_error)})
            else:
                found = hc_invariants(inside, sp)
                if not aspects and not found:
                    bump('compliant-hc-file-decoded')
                for asp, det in found:
                    vio.append({'prop': PROP, 'kind': 'restriction-breached-in-written-file', 'mech': 'written:' + asp,
                                'detail': f'{label}: built and written inside the context, decoded file has {det}'})
                alias = {'renamed-after-creation': 'object-name', 'header-id-reassigned': 'header-id',
                         'set-identifier-reassigned': 'set-identifier'}
                for asp in aspects:
                    if not any(f[0] in (asp, alias.get(asp)) for f in found):
                        vio.append({'prop': PROP, 'kind': 'breach-not-raised', 'mech': 'not-raised:' + asp,
                                    'detail': f'{label}: neither raised inside the context nor visible in the decoded file'})
        else:
            bump('inside-raised')
            if not aspects:
                bump('compliant-spec-rejected-inside:%s' % inside.wout[2][:60])
    if aspects:
        if outside.data is None:
            vio.append({'prop': PROP, 'kind': 'rejected-outside-context', 'mech': 'outside-rejected:' + '+'.join(sorted(aspects)),
                        'detail': f'{label}: outside the context {outside.wout[1:3]}'})
        else:
            warns = [m for lv, nm, m in outside.logs if lv == 'WARNING']
            if warns:
                bump('outside-warned')
            if len(aspects) == 1 and not warns:
                vio.append({'prop': PROP, 'kind': 'accepted-without-warning', 'mech': 'no-warning:' + aspects[0],
                            'detail': f'{label}: accepted outside the context without any WARNING log record'})
    sig = f'{sorted(aspects)}:{pattern}'
    sample = {'aspects': aspects, 'pattern': pattern, 'inside': (inside.wout[:2] if inside is not None else None),
              'outside': outside.wout[:2], 'flag_transitions': log[:8]}
    return {'evals': 1, 'violations': vio, 'obs': obs, 'sigs': [sig] if aspects or pattern != 'plain' else [], 'sample': sample}
