"""C18 -- frames and logical files are isolated from one another (DESIGN.md section 5, C18)."""
from __future__ import annotations
import copy
from vf import gen, schema

PROP = 'C18'
META = {
    'level': 'exploration',
    'rule': ('one evaluation = one physical file whose per-logical-file inventories (objects, references, origins) and per-frame '
             'rows are compared with what was added to each logical file / frame; every name and data cell is unique across '
             'the physical file, so foreign content is recognisable; signature = (#frames, #logical files, set-name assignment '
             'class, interleaved?); non-trivial when there are >= 2 frames or >= 2 logical files'),
    'required_obs': {'quick': ['multi-lf-written', 'multi-frame-written', 'frames-different-rows', 'interleaved',
                               'shared-set-names-tried', 'partially-shared-tried', 'shared-after-rejected-add', 'lf-order-checked', 'rows-compared', 'runs-with-equal-channel-names', 'no-format-data-in-multi-lf', 'frames-source-struct', 'frames-source-dict', 'frames-source-hdf5', 'data-dict-for-one-logical-file',
                               'object-compared']},
    'assumptions': ['a configuration whose set names collide across logical files may be rejected at add_* or at write time'],
}
META['required_obs']['thorough'] = META['required_obs']['quick']


def cases(tier, seed):
    for k in range(120 if tier == 'quick' else 3000):
        yield {'stratum': 'multi-lf', 'index': k, 'kind': 'lfs'}
    for k in range(80 if tier == 'quick' else 2000):
        yield {'stratum': 'multi-frame', 'index': k, 'kind': 'frames'}
    for k in range(60 if tier == 'quick' else 1000):
        yield {'stratum': 'shared-set-names', 'index': k, 'kind': 'shared'}
    # several runs in ONE logical file: each run has its own origin, its own CHANNEL set and its own frame, and the runs
    # use the same channel names
    for k in range(40 if tier == 'quick' else 1000):
        yield {'stratum': 'runs-with-equal-channel-names', 'index': k, 'kind': 'runs'}
    # one logical file brings its data along (add_channel(data=...)), the other one gets them through write(data=dict)
    for k in range(16 if tier == 'quick' else 300):
        yield {'stratum': 'data-dict-for-one-logical-file', 'index': k, 'kind': 'data-dict'}


def interleave(spec, r):
    """Random merge of the per-logical-file op sequences (each keeps its own order); indices re-mapped."""
    per = {}
    for i, o in enumerate(spec['ops']):
        per.setdefault(o.get('lf', 0), []).append(i)
    order = []
    cursors = {l: 0 for l in per}
    live = [l for l in per]
    while live:
        l = r.choice(live)
        n = r.choice([1, 1, 2, 5])
        for _ in range(n):
            if cursors[l] < len(per[l]):
                order.append(per[l][cursors[l]])
                cursors[l] += 1
        if cursors[l] >= len(per[l]):
            live.remove(l)
    m = {old: new for new, old in enumerate(order)}

    def fix(v):
        if isinstance(v, dict):
            if '$ref' in v:
                return {'$ref': m[v['$ref']]}
            if '$origin_of' in v:
                return {'$origin_of': m[v['$origin_of']]}
            return {k: fix(x) for k, x in v.items()}
        if isinstance(v, list):
            return [fix(x) for x in v]
        return v
    new = []
    for old in order:
        o = copy.deepcopy(spec['ops'][old])
        if 'attrs' in o:
            o['attrs'] = fix(o['attrs'])
        if 'target' in o:
            o['target'] = m[o['target']]
        if 'origin_reference' in o:
            o['origin_reference'] = fix(o['origin_reference'])
        new.append(o)
    out = copy.deepcopy(spec)
    out['ops'] = new
    return out


def run_case(case):
    from vf import harness, oracle, metagen
    seed = case.get('seed', 0)
    obs, vio, sigs = {}, [], []

    def bump(k, n=1):
        obs[k] = obs.get(k, 0) + n

    r = gen.rng(seed, PROP, case['stratum'], case['index'])
    avoid = metagen.default_avoid()
    shared = None
    inter = False
    if case['kind'] == 'runs':
        nruns = r.choice([2, 2, 3])
        sp = gen.base_spec(r.choice([128, 8192]))
        for j in range(nruns):
            sp['ops'].append(gen.origin_op(f'ORIGIN-RUN{j}', fsn=10 + j))
        names = ['DEPTH', 'GR', 'IMG'][:r.choice([2, 3])]
        rows = []
        for j in range(nruns):
            n = r.choice([3, 7, 12, 25])
            rows.append(n)
            idx = []
            for c, nm in enumerate(names):
                shape = (n,) if c < 2 else (n, 3)
                op = gen.channel_op(nm, gen.dtstr(r.choice(['float64', 'float32', 'uint16']), '<'), shape,
                                    fill={'kind': 'pos', 'tag': 100 * (j + 1) + c}, set_name=f'RUN{j}')
                op['origin_reference'] = {'$origin_of': j}
                if r.random() < 0.3:
                    op['dataset_name'] = f'run{j}_{nm}'
                sp['ops'].append(op)
                idx.append(len(sp['ops']) - 1)
            fop = gen.frame_op(f'FRAME-RUN{j}', idx, **({'index_type': 'BOREHOLE-DEPTH'} if r.random() < 0.5 else {}))
            fop['origin_reference'] = {'$origin_of': j}
            sp['ops'].append(fop)
        sp['write'] = {'output_chunk_size': 2 ** 16, 'input_chunk_size': r.choice([None, 2, 5])}
        nlf = 1
        if len(set(rows)) > 1:
            bump('frames-different-rows')
        bump('runs-with-equal-channel-names')
        cls = 'runs'
    elif case['kind'] == 'data-dict':
        sp = gen.base_spec(r.choice([128, 8192]), lfs=[{'fh_id': 'LF-INLINE'}, {'fh_id': 'LF-DICT'}])
        same_names = case['index'] % 2 == 0       # (odd cases: explicit, distinct data set names -- the control)
        if r.random() < 0.5:
            sp['lfs'].reverse()
        inline_lf = next(i for i, l in enumerate(sp['lfs']) if l['fh_id'] == 'LF-INLINE')
        for lf in range(2):
            n = r.choice([3, 4, 7])
            sp['ops'].append(dict(gen.origin_op(f'ORIGIN-{lf}', fsn=5 + lf), lf=lf, set_name=f'S{lf}'))
            idx = []
            for c, nm in enumerate(['DEPTH', 'GR']):
                op = gen.channel_op(nm, '<f8' if c == 0 else r.choice(['<f4', '<u2']), (n,), fill={'kind': 'pos', 'tag': 10 * (lf + 1) + c},
                                    lf=lf, set_name=f'S{lf}')
                if lf == inline_lf:
                    op['force_inline'] = True
                elif not same_names:
                    op['dataset_name'] = f'dict_{nm}'
                sp['ops'].append(op)
                idx.append(len(sp['ops']) - 1)
            sp['ops'].append(dict(gen.frame_op(f'FRAME-{lf}', idx, lf=lf), set_name=f'S{lf}'))
        sp['write'] = {'output_chunk_size': 2 ** 16, 'source': 'dict', 'input_chunk_size': r.choice([None, 2])}
        nlf = 2
        bump('data-dict-for-one-logical-file')
        bump('data-dict-' + ('same-dataset-names' if same_names else 'distinct-dataset-names'))
        cls = 'data-dict:' + ('same' if same_names else 'distinct')
    elif case['kind'] == 'frames':
        nfr = r.choice([2, 3, 4])
        sp = gen.base_spec(r.choice([128, 8192]))
        sp['ops'].append(gen.origin_op())
        rows = []
        tag = 0
        # the data of ALL frames come from one source object (one dict / one HDF5 file / one structured array, whose fields
        # all have the same number of rows): each frame must pick its own columns
        source = r.choice(['inline', 'inline', 'dict', 'hdf5', 'struct', 'struct'])
        n_all = r.choice([1, 2, 5, 9, 13])
        for f in range(nfr):
            n = n_all if source == 'struct' else r.choice([1, 2, 5, 9, 13])
            rows.append(n)
            idx = []
            for c in range(r.choice([1, 2, 3])):
                tag += 1
                shape = (n,) if r.random() < 0.6 else (n, r.choice([2, 3]))
                sp['ops'].append(gen.channel_op(f'F{f}C{c}', gen.dtstr(r.choice(gen.DTYPES), r.choice('<>')), shape,
                                                fill={'kind': 'pos', 'tag': tag * 17}))
                idx.append(len(sp['ops']) - 1)
            sp['ops'].append(gen.frame_op(f'FRAME{f}', idx, **({'index_type': 'BOREHOLE-DEPTH'} if r.random() < 0.3 and len(sp['ops'][idx[0]]['data']['shape']) == 1 else {})))
        sp['write'] = {'output_chunk_size': 2 ** 16, 'input_chunk_size': r.choice([None, 1, 2, 4]), 'source': source}
        if source == 'struct':
            sp['write'].update({'extra': r.choice([0, 0, 1]), 'struct_variant': r.choice([None, None, 'aligned', 'view'])})
        bump('frames-source-' + source)
        nlf = 1
        if len(set(rows)) > 1:
            bump('frames-different-rows')
        cls = 'frames'
    else:
        nlf = r.choice([2, 2, 3])
        sp = metagen.meta_spec(r, avoid=avoid, n_objects=r.choice([2, 5, 9]), lf_count=nlf, n_origins=r.choice([1, 2]),
                               types=['zone', 'parameter', 'tool', 'equipment', 'comment', 'axis', 'long_name', 'computation',
                                      'message', 'group', 'no_format', 'process', 'splice', 'calibration_coefficient'])
        cls = 'distinct'
        if case['kind'] == 'shared':
            # strip the per-logical-file set names of some or all types -> sets would be shared between logical files
            types = sorted({o['op'] for o in sp['ops'] if o['op'] in schema.TYPES})
            mode = r.choice(['all-default', 'one-type', 'some-types', 'same-explicit-name'])
            pick = types if mode == 'all-default' else ([r.choice(types)] if mode == 'one-type' else
                                                        [t for t in types if r.random() < 0.4] or [types[0]])
            for o in sp['ops']:
                if o['op'] in pick:
                    if mode == 'same-explicit-name':
                        o['set_name'] = 'COMMON'
                    else:
                        o.pop('set_name', None)
            if r.random() < 0.5:
                # a rejected add_* in one logical file comes first and is the first to name the shared set; then the other
                # logical file uses the set, then the first one (now successfully)
                sn = 'COMMON' if mode == 'same-explicit-name' else None
                rej = {'op': 'zone', 'lf': 0, 'name': 'L0-REJECTED', 'attrs': {'domain': 'NOT-A-ZONE-DOMAIN'}, 'expect': 'reject'}
                z1 = {'op': 'zone', 'lf': 1, 'name': 'L1-ZONE-SHARED', 'attrs': {'description': 'of logical file 1'}}
                z0 = {'op': 'zone', 'lf': 0, 'name': 'L0-ZONE-SHARED', 'attrs': {'description': 'of logical file 0'}}
                for z in (rej, z1, z0):
                    if sn:
                        z['set_name'] = sn
                # the three ops reference nothing and nothing references them: put them in front and shift the indices
                sp['ops'] = [rej, z1, z0] + sp['ops']

                def sh(v):
                    if isinstance(v, dict):
                        if '$ref' in v:
                            return {'$ref': v['$ref'] + 3}
                        if '$origin_of' in v:
                            return {'$origin_of': v['$origin_of'] + 3}
                        return {k: sh(x) for k, x in v.items()}
                    if isinstance(v, list):
                        return [sh(x) for x in v]
                    return v
                for o in sp['ops'][3:]:
                    if 'attrs' in o:
                        o['attrs'] = sh(o['attrs'])
                    if 'target' in o:
                        o['target'] += 3
                    if 'origin_reference' in o:
                        o['origin_reference'] = sh(o['origin_reference'])
                # zones of the generated part would also share; keep only the three so that this is the deciding pair
                if mode == 'one-type':
                    pick = ['zone']
                    for o in sp['ops'][3:]:
                        if o['op'] in schema.TYPES and o.get('set_name') is None and o['op'] != 'zone':
                            o['set_name'] = f"L{o.get('lf', 0)}-S"
                bump('shared-after-rejected-add')
            shared = (mode, pick)
            cls = 'shared:' + mode
            bump('shared-set-names-tried')
            if mode in ('one-type', 'some-types'):
                bump('partially-shared-tried')
        # no-format data records for the no-format objects of some of the logical files (none for the others)
        nf_added = 0
        for i_, o_ in list(enumerate(sp['ops'])):
            if o_['op'] == 'no_format' and r.random() < 0.7:
                for j_ in range(r.choice([1, 2])):
                    op_ = gen.nf_data_op(i_, gen.payload_bytes(r, r.choice([0, 3, 20, 200]), i_ * 7 + j_), lf=o_.get('lf', 0))
                    sp['ops'].append(op_)
                    nf_added += 1
        if nf_added:
            bump('no-format-data-in-multi-lf')
        if r.random() < 0.6:
            sp = interleave(sp, r)
            inter = True
            bump('interleaved')
    run = harness.execute(sp, want_taps=False)
    if run.data is None and 'is too large. Should be between' in run.wout[2]:
        # the write loop was aborted by the progress display: the declared number of records (objects + rows) is smaller than
        # the number of records of a file with several logical files (one header each, one record per set)
        vio.append({'prop': PROP, 'kind': 'multi-lf-write-aborted', 'mech': 'write-aborted:record-count',
                    'detail': f'{nlf} logical files: write raised {run.wout[1]}: {run.wout[2][:120]}'})
    if run.data is None and (case['kind'] in ('frames', 'runs', 'data-dict') or (cls == 'distinct' and not shared)
                             or 'not a no-format object of this logical file' in run.wout[2]
                             or 'has not been added to the same logical file' in run.wout[2]
                             or 'is not that of any origin of the logical file' in run.wout[2]):
        # these specifications are valid by construction (and none of this workload hands an object to another logical
        # file): a refusal means that something of another logical file / another DLISFile got in
        vio.append({'prop': PROP, 'kind': 'valid-spec-refused', 'mech': 'refused:' + run.wout[1],
                    'detail': f'{case["kind"]}: write raised {run.wout[1]}: {run.wout[2][:160]}'})
    if run.data is None:
        bump('write-raised:%s:%s' % (run.wout[1], run.wout[2][:60]))
        if shared:
            bump('shared-rejected')
        return {'evals': 1, 'violations': vio, 'obs': obs, 'sigs': [f'{cls}:raised'], 'sample': {'class': cls, 'outcome': run.wout[:3]}}
    oracle.decode(run)
    oracle.match(run)
    oracle.check_c05(run)
    oracle.check_c07(run)
    oracle.check_frames(run)
    oracle.check_c16(run)
    for k, v in run.obs.items():
        if k in ('rows-compared', 'object-compared', 'frame-checked'):
            bump(k, v)
    if run.stage_error:
        vio.append({'prop': PROP, 'kind': 'file-undecodable', 'mech': 'undecodable:' + run.stage_error[1].kind, 'detail': str(run.stage_error[1])})
    # any mismatch of inventories / rows / references in a multi-frame or multi-logical-file setting is reported here
    for v in run.violations:
        if v.prop in ('C03', 'C04', 'C05', 'C07', 'C16', 'C18', 'C09'):
            mech = f'{v.prop}:{v.mech}'
            if shared:
                mech = 'shared-set:' + mech
            if cls == 'data-dict:same' and v.prop == 'C03':
                # rows of the logical file that brought its own data were replaced by the equally named entries of the dict
                mech = 'data-dict-names-dataset-of-other-logical-file:' + mech
            vio.append({'prop': PROP, 'kind': 'isolation:' + v.kind, 'mech': mech, 'detail': v.detail})
    # foreign content: object names carry the prefix of the logical file they were added to
    if run.lfs is not None and nlf > 1:
        bump('lf-order-checked')
        for li, dl in enumerate(run.lfs):
            want = run.exp[li].header_id.ljust(65) if li < len(run.exp) else None
            got = dl.header.objects[0].attrs.get('ID')
            if want is not None and (got is None or got.values != [want]):
                vio.append({'prop': PROP, 'kind': 'logical-file-order', 'mech': 'lf-order',
                            'detail': f'logical file #{li} opens with header {got.values if got else None!r}, expected {want!r}'})
            for s in dl.sets[1:]:
                for o in s.objects:
                    if cls.startswith('data-dict'):
                        continue        # (this stratum uses the SAME names in both logical files, on purpose)
                    if not o.name[2].startswith(f'L{li}-'):
                        vio.append({'prop': PROP, 'kind': 'foreign-object', 'mech': ('shared-set:' if shared else '') + 'foreign-object',
                                    'detail': f'logical file #{li}, set {s.type}/{s.name}: object {o.name} was added to another logical file'})
                        break
        if shared:
            bump('shared-written')
    if nlf > 1:
        bump('multi-lf-written')
    if case['kind'] in ('frames', 'runs'):
        bump('multi-frame-written')
    # de-duplicate by mech
    seen, out = set(), []
    for v in vio:
        if v['mech'] not in seen:
            seen.add(v['mech'])
            out.append(v)
    nfr = sum(1 for o in sp['ops'] if o['op'] == 'frame')
    sigs.append(f'{min(nfr, 5)}:{nlf}:{cls}:{inter}')
    sample = {'class': cls, 'logical_files': nlf, 'frames': nfr, 'interleaved': inter,
              'ops': [(o.get('lf', 0), o['op'], str(o.get('name'))[:14], o.get('set_name')) for o in sp['ops'][:14]]}
    return {'evals': 1, 'violations': out, 'obs': obs, 'sigs': sigs, 'sample': sample}
