"""C19 -- writing never alters the caller's data (DESIGN.md section 5, C19)."""
from __future__ import annotations
import copy
import hashlib
from vf import gen

PROP = 'C19'
META = {
    'level': 'exploration',
    'rule': ('one evaluation = one write (successful or failing) with SHA-256 digests of every caller-owned buffer '
             '(whole base buffer incl. canaries around views), the data dict (keys, value identities) and the HDF5 file '
             'taken before and after; plus a read-only vs. writable differential of the same case; signature = (source '
             'kind, sorted (dtype+order, layout, cast), window?, outcome); non-trivial when a buffer is a view, '
             'read-only, big-endian, cast, or the write failed'),
    'required_obs': {'quick': ['digest-compared', 'src-inline', 'src-dict', 'src-struct', 'src-hdf5', 'big-endian',
                               'cast', 'view', 'readonly', 'failed-write', 'h5-open-audited', 'readonly-differential', 'native-zero-copy', 'dict-plus-inline', 'hc-write-ok', 'cast-of-out-of-range-values', 'special-values-in-index', 'syscall-source-open-seen', 'permuted-dataset-names']},
    'technique': ('runtime monitoring: digests of every caller-owned buffer / data object / HDF5 file before and after each write, '
                  'read-only vs. writable differential, recording wrapper on h5py.File, and strace of a child process '
                  '(the HDF5 source is only opened O_RDONLY and never written at the level of the operating system)'),
    'assumptions': ['sys.addaudithook sees Python-level open(); h5py opens are observed through the h5py.File mode '
                    'argument recorded by a wrapper on h5py.File.__init__ and, in the thorough tier, through strace'],
}
META['required_obs']['thorough'] = META['required_obs']['quick']


def cases(tier, seed):
    for k in range(400 if tier == 'quick' else 10000):
        yield {'stratum': 'random', 'index': k, 'kind': 'random'}
    for k in range(60 if tier == 'quick' else 1000):
        yield {'stratum': 'failing', 'index': k, 'kind': 'failing'}
    # native, contiguous, un-cast data: the place where a zero-copy path (and so an in-place edit) can live
    for k in range(120 if tier == 'quick' else 3000):
        yield {'stratum': 'native-zero-copy', 'index': k, 'kind': 'native'}
    # the HDF5 source as the operating system sees it: strace of a child that does nothing but one write between two markers
    # (h5py opens the file from C; no Python-level hook sees that)
    for k in range(6 if tier == 'quick' else 100):
        yield {'stratum': 'syscall-trace', 'index': k, 'kind': 'syscalls'}
    # a structured array whose fields are exactly the frame's channels, some channels taking ANOTHER field of the same dtype
    # (dataset_name): columns that have to be re-arranged are re-arranged in a copy
    for k in range(40 if tier == 'quick' else 800):
        yield {'stratum': 'permuted-dataset-names', 'index': k, 'kind': 'permuted-names'}
    # INDEXED frames whose index channel holds special values (both zeros with the minimum / maximum at zero, NaN, infinities,
    # repeated values): what the library works out about the index (bounds, spacing, direction) it works out on a copy
    for k in range(80 if tier == 'quick' else 1500):
        yield {'stratum': 'special-values-in-index', 'index': k, 'kind': 'index-special'}


_h5_modes = []
_h5_patched = [False]


def _patch_h5():
    if _h5_patched[0]:
        return
    _h5_patched[0] = True
    import h5py
    orig = h5py.File.__init__

    def init(self, name, mode='r', *a, **kw):
        _h5_modes.append((str(name), mode))
        return orig(self, name, mode, *a, **kw)
    h5py.File.__init__ = init


def _file_hash(path):
    with open(path, 'rb') as f:
        return hashlib.sha256(f.read()).hexdigest()


def run_case(case):
    import numpy as np
    from vf import harness, oracle, spec as S
    seed = case.get('seed', 0)
    obs, vio = {}, []

    def bump(k, n=1):
        obs[k] = obs.get(k, 0) + n

    _patch_h5()
    r = gen.rng(seed, PROP, case['stratum'], case['index'])
    if case['kind'] == 'syscalls':
        from vf import syscalls
        if not syscalls.available():
            bump('strace-unavailable')
            return {'evals': 0, 'violations': [], 'obs': obs, 'sigs': [], 'sample': None}
        sp = gen.frame_spec(r, casts=r.random() < 0.4, window=r.random() < 0.4, nframes=r.choice([1, 2]), sources=('hdf5',))
        if r.random() < 0.3:
            sp['write']['hc'] = True
        ev = syscalls.trace(sp)
        if ev['markers'] != (True, True) or ev['build_error'] or ev['write'] is None or not ev['source']:
            raise RuntimeError(f'traced child did not run the write: {ev["markers"]} {ev["build_error"]}')
        bump('syscall-traced')
        n_open = sum(1 for o in ev['opens'] if o[0] == 'source')
        bump('syscall-source-opens', n_open)
        if n_open:
            bump('syscall-source-open-seen')
        for b_ in syscalls.judge_source(ev):
            vio.append({'prop': PROP, 'kind': 'caller-data-altered', 'mech': 'syscall:' + b_[:60],
                        'detail': f'{b_} (write outcome {ev["write"][:2]})'})
        return {'evals': 1, 'violations': vio, 'obs': obs, 'sigs': [f'syscalls:hdf5:{ev["write"][0]}:{min(n_open, 3)}'],
                'sample': {'kind': 'syscall trace', 'source_opens': n_open, 'outcome': ev['write'][:2]}}
    if case['kind'] == 'native':
        sp = gen.frame_spec(r, casts=False, window=r.random() < 0.3, nframes=1, orders='<=', layouts=('C', 'C', 'view'),
                            sources=('struct', 'struct', 'dict', 'inline', 'hdf5'), nch=r.choice([2, 3]))
        sp['write']['extra'] = 0
        sp['write']['perm_seed'] = None
        bump('native-zero-copy')
        if r.random() < 0.4:
            # the same, written inside the high-compatibility context (no signed integers there), special values
            # (NaN payloads, infinities, signed zeros) in the data
            sp = gen.frame_spec(r, casts=False, window=r.random() < 0.3, nframes=1, orders='<=', layouts=('C', 'C', 'view'),
                                sources=('struct', 'struct', 'dict', 'inline', 'hdf5'), nch=r.choice([2, 3]),
                                dtypes=('float32', 'float64', 'uint8', 'uint16', 'uint32'), fills=('special', 'special', 'pos'))
            sp['write']['extra'] = 0
            sp['write']['perm_seed'] = None
            sp['write']['hc'] = True
            bump('written-in-hc-mode')
    elif case['kind'] == 'permuted-names':
        N = r.choice([3, 5, 8, 40])
        nch = r.choice([2, 3, 4])
        dt = gen.dtstr(r.choice(['float64', 'float32', 'int32', 'uint16']), '=')
        shape = (N,) if r.random() < 0.6 else (N, r.choice([2, 3]))
        sp = gen.base_spec(r.choice([256, 8192]))
        sp['ops'].append(gen.origin_op())
        names = [f'CH{j}' for j in range(nch)]
        perm = names[:]
        while perm == names:
            r.shuffle(perm)
        for j, nm in enumerate(names):
            sp['ops'].append(gen.channel_op(nm, dt, shape, fill={'kind': 'pos', 'tag': 10 + names.index(perm[j])}, dataset_name=perm[j]))
        sp['ops'].append(gen.frame_op('F', list(range(1, nch + 1))))
        sp['write'] = {'source': r.choice(['struct', 'struct', 'dict', 'hdf5']), 'output_chunk_size': 2 ** 16, 'perm_seed': None, 'extra': 0,
                       'input_chunk_size': r.choice(gen.chunk_choices(N)), 'sort_fields': True}
        if N > 2 and r.random() < 0.5:
            sp['write'].update({'from_idx': r.choice([0, 1]), 'to_idx': r.choice([None, N - 1])})
        bump('permuted-dataset-names')
    elif case['kind'] == 'index-special':
        N = r.choice([2, 3, 5, 8, 17])
        form = r.choice(['negated-depths', 'negated-depths', 'zeros-mixed', 'zero-first', 'zero-last', 'nan-inside', 'inf-ends', 'constant'])
        if form == 'negated-depths':
            vals = [-(j * 0.5) for j in range(N)]                    # -0.0, -0.5, -1.0, ...: the maximum is a negative zero
            if r.random() < 0.5:
                vals.reverse()
        elif form == 'zeros-mixed':
            vals = [r.choice([0.0, -0.0]) for _ in range(N)]
            vals[r.randrange(N)] = -0.0
        elif form == 'zero-first':
            vals = [-0.0] + [float(j) for j in range(1, N)]
        elif form == 'zero-last':
            vals = [float(-j) for j in range(N - 1, 0, -1)] + [-0.0]
        elif form == 'nan-inside':
            vals = [float(j) for j in range(N)]
            vals[r.randrange(N)] = float('nan')
        elif form == 'inf-ends':
            vals = [float('-inf')] + [float(j) for j in range(1, N - 1)] + [float('inf')] if N > 2 else [float('-inf'), float('inf')]
        else:
            vals = [-0.0] * N
        dt = r.choice(['<f8', '<f4', '>f8', '>f4'])
        hc = form in ('negated-depths', 'zero-first') and r.random() < 0.3
        sp = gen.base_spec(r.choice([256, 8192]))
        sp['ops'].append(gen.origin_op())
        sp['ops'].append(gen.channel_op('DEPTH', dt, (N,), fill={'kind': 'seq', 'values': vals}, layout=r.choice(['C', 'C', 'view', 'strided'])))
        sp['ops'].append(gen.channel_op('Y', r.choice(['<f8', '<u2']), (N,), fill={'kind': 'pos', 'tag': 2}))
        if r.random() < 0.4:
            sp['ops'].append(gen.channel_op('Z', '<u1', (N, 3), fill={'kind': 'pos', 'tag': 3}))
        chans_ = [i for i, o in enumerate(sp['ops']) if o['op'] == 'channel']
        sp['ops'].append(gen.frame_op('FR', chans_, index_type='BOREHOLE-DEPTH'))
        sp['write'] = {'source': r.choice(['inline', 'dict', 'struct', 'hdf5']), 'output_chunk_size': 2 ** 16,
                       'input_chunk_size': r.choice(gen.chunk_choices(N)), 'perm_seed': None, 'extra': 0}
        if N > 2 and r.random() < 0.3:
            sp['write'].update({'from_idx': 0, 'to_idx': N - 1} if r.random() < 0.5 else {'from_idx': 1, 'to_idx': None})
        if hc:
            sp['write']['hc'] = True     # (a non-uniform index is refused there: a failing write after the index was looked at)
        bump('special-values-in-index')
        bump('index-form-' + form)
    else:
        sp = gen.frame_spec(r, casts=r.random() < 0.4, window=r.random() < 0.4, nframes=r.choice([1, 1, 2]),
                            mixed_inline=r.random() < 0.5)
    # declared casts of values that do not fit the target (whatever the cast does with them, it does it to a copy)
    for o in sp['ops']:
        if o['op'] == 'channel' and o.get('cast_dtype') and o['data']['dtype'][1] == 'f' and r.random() < 0.6:
            o['data']['fill'] = {'kind': 'pos', 'tag': r.choice([40, 70, 3000000])}
            bump('cast-of-out-of-range-values')
    fail = None
    if case['kind'] == 'failing':
        fail = r.choice(['missing-dataset', 'flush-error', 'flush-error'])
        if fail == 'missing-dataset':
            sp['write']['source'] = r.choice(['dict', 'hdf5', 'struct'])
            for o in sp['ops']:
                o.pop('force_inline', None)
    src = sp['write']['source']
    chans = [(i, o) for i, o in enumerate(sp['ops']) if o['op'] == 'channel']

    def one(spec, make_readonly=False):
        b = S.build(spec)
        if make_readonly:
            for a in b.arrays.values():
                S.array_base(a).flags.writeable = False
                a.flags.writeable = False
        data = S.make_write_data(spec, b, harness.scratch_dir())
        drop = None
        if fail == 'missing-dataset':
            last = chans[-1][1]
            key = last.get('dataset_name') or last['name']
            if isinstance(data, dict):
                data = {k: v for k, v in data.items() if k != key}
            elif isinstance(data, np.ndarray):
                data = data[[n for n in data.dtype.names if n != key]]
            elif isinstance(data, str):
                import h5py
                with h5py.File(data, 'r+') as f:
                    del f[key.lstrip('/')]
                _h5_modes.pop()
        before = {i: S.digest_array(a) for i, a in b.arrays.items()}
        dbefore = None
        if isinstance(data, dict):
            dbefore = [(k, id(v), S.digest_array(v)) for k, v in data.items()]
        elif isinstance(data, np.ndarray):
            dbefore = S.digest_array(data)
        elif isinstance(data, str):
            dbefore = _file_hash(data)
        del _h5_modes[:]
        n_flush = [0]

        def on_flush(fn, total, k):
            if fail == 'flush-error' and k >= 2:
                raise OSError(28, 'No space left on device (injected)')
        path = harness.fresh_path()
        taps = harness.Taps(on_flush)
        with taps:
            wout = S.do_write(spec, b, path, harness.scratch_dir(), data=data)
        after = {i: S.digest_array(a) for i, a in b.arrays.items()}
        problems = []
        for i in before:
            if before[i] != after[i]:
                problems.append(('array', spec['ops'][i]['name'], spec['ops'][i]['data']['dtype'], spec['ops'][i]['data'].get('layout')))
        if isinstance(data, dict):
            dafter = [(k, id(v), S.digest_array(v)) for k, v in data.items()]
            if dafter != dbefore:
                problems.append(('dict', [k for k, _, _ in dbefore], [k for k, _, _ in dafter]))
        elif isinstance(data, np.ndarray):
            if S.digest_array(data) != dbefore:
                problems.append(('structured-array',))
        elif isinstance(data, str):
            if _file_hash(data) != dbefore:
                problems.append(('hdf5-file',))
            for nm, mode in _h5_modes:
                bump('h5-open-audited')
                if mode not in ('r',):
                    problems.append(('hdf5-open-mode', mode))
        out = None
        if wout[0] == 'ok':
            with open(path, 'rb') as f:
                out = f.read()
        import os
        if os.path.exists(path):
            os.remove(path)
        return wout, out, problems

    wout, out, problems = one(sp)
    bump('digest-compared')
    bump('src-' + src)
    if wout[0] == 'ok' and sp['write'].get('hc'):
        bump('hc-write-ok')
    if wout[0] != 'ok':
        bump('failed-write')
        bump('failed:%s:%s' % (wout[1], wout[2][:40]))
        if fail is None:
            bump('unexpected-failed-write')
    if src == 'dict' and any(o.get('force_inline') for _, o in chans):
        bump('dict-plus-inline')
    for i, o in chans:
        d = o['data']
        if d['dtype'][0] == '>':
            bump('big-endian')
        if o.get('cast_dtype'):
            bump('cast')
        if d.get('layout') in ('view', 'strided'):
            bump('view')
        if d.get('layout') == 'readonly':
            bump('readonly')
    for p in problems:
        vio.append({'prop': PROP, 'kind': 'caller-data-altered', 'mech': 'altered:' + p[0] + ':' + src,
                    'detail': f'{p} (source {src}, write outcome {wout[0]})'})
    # read-only differential: same case with every buffer read-only must behave the same
    if fail is None and src != 'hdf5':
        wout2, out2, problems2 = one(copy.deepcopy(sp), make_readonly=True)
        bump('readonly-differential')
        if (wout[0] == 'ok') != (wout2[0] == 'ok'):
            vio.append({'prop': PROP, 'kind': 'readonly-changes-outcome', 'mech': 'readonly-outcome:' + src,
                        'detail': f'writable: {wout}, read-only: {wout2}'})
        elif out != out2:
            vio.append({'prop': PROP, 'kind': 'readonly-changes-bytes', 'mech': 'readonly-bytes:' + src, 'detail': ''})
    sig = f"{src}|{sorted({(o['data']['dtype'], o['data'].get('layout'), bool(o.get('cast_dtype'))) for _, o in chans})}|" \
          f"{sp['write'].get('from_idx') is not None}|{wout[0]}|{fail}"
    nontrivial = wout[0] != 'ok' or any(o['data']['dtype'][0] == '>' or o.get('cast_dtype') or o['data'].get('layout') != 'C'
                                        for _, o in chans)
    sample = {'source': src, 'fail': fail, 'outcome': wout[:2],
              'channels': [(o['name'], o['data']['dtype'], o['data']['shape'], o['data'].get('layout'), o.get('cast_dtype')) for _, o in chans][:5]}
    return {'evals': 1, 'violations': vio, 'obs': obs, 'sigs': [sig] if nontrivial else [], 'sample': sample}
