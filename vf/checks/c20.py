"""C20 -- a rejected call leaves no trace in later files (DESIGN.md section 5, C20)."""
from __future__ import annotations
import copy
from vf import gen, schema

PROP = 'C20'
REJECTIONS = ['wrong-type', 'outside-enum', 'non-numeric', 'wrong-ref-class', 'bad-origin-ref', 'bad-cast-dtype',
              'duplicate-dataset', 'unknown-keyword', 'name-not-str', 'bad-assign', 'frame-no-channels', 'units-on-unitless',
              'dataset-name-not-text', 'refused-inside-hc-context']
FAILED_WRITES = ['missing-data', 'inconsistent-dimension', 'flush-error', 'hc-breach-at-write', 'unequal-rows',
                 'index-not-1d', 'hc-nonuniform-index', 'incomplete-then-completed', 'frameless-channel-axis-mismatch', 'index-2d-then-channel-removed',
                 'element-limit-exceeded-then-other-width']
META = {
    'level': 'fault_enumeration',
    'rule': ('one evaluation = one history pair: the specification with rejected add_*/assignment calls (or a failed write) '
             'vs. the same history without them, each executed in its own fresh interpreter, final files compared '
             'byte-for-byte; faults enumerated = every rejection kind x object type x position in the history, and every '
             'failed-write cause followed by removal of the cause; signature = (object type, rejection kind, position '
             'class, name reused afterwards?); all are non-trivial'),
    'required_obs': {'quick': ['compared', 'rejected-as-intended', 'name-reused-after-rejection', 'rejection-after-registration',
                               'rejection-before-registration', 'rejected-call-other-logical-file', 'rejected-assignment-between-writes', 'rejected-first-origin'] + ['rej-' + k for k in REJECTIONS] + ['failed-write-' + k for k in FAILED_WRITES]},
    'assumptions': ['rejection kinds are those the public API itself raises for',
                    'both histories run in fresh interpreters, so process-level caches (C14) cannot interfere'],
    'technique': 'runtime monitoring + fault enumeration: byte differential between a history with rejected calls / a failed write and the same history without them (fresh processes)',
    'timeout_s': {'quick': 900, 'thorough': 7200},
}
META['required_obs']['thorough'] = META['required_obs']['quick']

TYPES = [t for t in schema.TYPES if t not in ('origin',)]


def cases(tier, seed):
    i = 0
    for t in schema.TYPES:
        for rk in REJECTIONS:
            for j in range(1 if tier == 'quick' else 6):
                yield {'stratum': 'rejected-call', 'index': i, 'kind': 'reject', 'type': t, 'rejection': rk}
                i += 1
    # two logical files: a call rejected in one of them must not tie it to the other's sets
    for j in range(12 if tier == 'quick' else 200):
        yield {'stratum': 'rejected-call-other-logical-file', 'index': i, 'kind': 'reject-multilf'}
        i += 1
    # the FIRST add_origin of a logical file is rejected (objects without origin exist already), then a valid one follows
    for j in range(16 if tier == 'quick' else 300):
        yield {'stratum': 'rejected-first-origin', 'index': i, 'kind': 'reject-first-origin'}
        i += 1
    # a rejected assignment BETWEEN two writes (values derived at the first write are in place by then)
    for j in range(16 if tier == 'quick' else 300):
        yield {'stratum': 'rejected-assignment-between-writes', 'index': i, 'kind': 'reject-between-writes'}
        i += 1
    for fw in FAILED_WRITES:
        for j in range(4 if tier == 'quick' else 60):
            yield {'stratum': 'failed-write', 'index': i, 'kind': 'failed-write', 'cause': fw}
            i += 1


def bad_op(r, t, rk, ctx_refs, existing_ops):
    """Return an op of type t that the public API must reject for reason rk, or None if not applicable."""
    table = schema.TYPES[t]['attrs']
    name = f'REJ-{t[:4].upper()}'
    if t == 'channel':
        op = gen.channel_op(name, '<f4', (3,), fill={'kind': 'pos', 'tag': 99})
    elif t == 'frame':
        chs = ctx_refs.get('channel', [])
        op = gen.frame_op(name, chs[:1])
    elif t == 'origin':
        op = gen.origin_op(name, fsn=9)
    else:
        op = {'op': t, 'name': name, 'attrs': {}}
    a = op['attrs']

    def first(kinds, multi=None):
        for kw, lab, k, m in table:
            if (k in kinds or any(k.startswith(x) for x in kinds if x.endswith(':'))) and (multi is None or m == multi):
                return kw, k, m
        return None
    if rk == 'wrong-type':
        f = first(('text', 'ident'))
        if f is None or (t, f[0]) in gen.ENUM_IDENT and False:
            return None
        kw, k, m = f
        if k == 'ident' and (t, kw) not in (('equipment', 'eq_type'), ('frame', 'index_type'), ('equipment', 'location')) and kw not in ('axis_id', 'label', 'measurement_type', 'serial_number', 'object_type'):
            # plain IdentAttribute has no converter: not rejected at add time
            f2 = first(('text',))
            if f2 is None:
                return None
            kw, k, m = f2
        a[kw] = 12345 if not m else [1, 2]
    elif rk == 'outside-enum':
        hard = [kw for (tt, kw) in gen.HARD_ENUMS if tt == t]
        if not hard:
            return None
        a[hard[0]] = 'NOT-IN-THE-ENUM' if hard[0] != 'properties' else ['AVERAGED', 'NOT-A-PROPERTY']
    elif rk == 'non-numeric':
        f = first(('num', 'fdoubl', 'uvari', 'unorm', 'int', 'dim'))
        if f is None:
            return None
        a[f[0]] = 'abc' if not f[2] else [1.0, 'abc']
    elif rk == 'wrong-ref-class':
        f = first(('ref:',))
        if f is None:
            return None
        kw, k, m = f
        want = k[4:]
        pool = [i for tt, v in ctx_refs.items() if tt != want and tt != 'origin' for i in v] if want != '*' else None
        if want == '*':
            a[kw] = 'not an object'
        elif not pool:
            return None
        else:
            x = {'$ref': r.choice(pool)}
            a[kw] = [x] if m else x
        if t == 'frame' and kw == 'channels':
            a[kw] = {'$tuple': [x]}
    elif rk == 'bad-origin-ref':
        if t == 'origin':
            op['attrs']['origin_reference'] = 'seven'
        else:
            op['origin_reference'] = 'seven'
    elif rk == 'bad-cast-dtype':
        if t != 'channel':
            return None
        op['cast_dtype'] = {'$dtype': 'int64', 'as': 'type'}
    elif rk == 'duplicate-dataset':
        if t != 'channel':
            return None
        prev = [o for o in existing_ops if o['op'] == 'channel']
        if not prev:
            return None
        op['dataset_name'] = prev[0].get('dataset_name') or prev[0]['name']
        # a rejected channel must not keep its data either
    elif rk == 'dataset-name-not-text':
        # the name under which the channel's data are kept is not a text (a list: not even hashable)
        if t != 'channel':
            return None
        op['dataset_name'] = r.choice([['x'], ['a', 'b'], {'k': 1}])
    elif rk == 'refused-inside-hc-context':
        # a call made inside `with high_compatibility_mode():` and refused there (lower-case name); the exception leaves the
        # block, the rest of the specification is built outside it
        if t == 'origin':
            return None
        op['name'] = 'refused only in hc mode'
        op['in_hc'] = True
    elif rk == 'units-on-unitless':
        # units given (through a dict / AttrSetup) to an attribute that cannot carry units: refused with a RuntimeError
        f = first(('text', 'ident', 'status'))
        if f is None:
            return None
        kw, k, m = f
        val = {'text': 'some text', 'ident': 'AN-IDENT', 'status': 1}[k]
        if (t, kw) in gen.HARD_ENUMS:
            return None
        a[kw] = {'$setup': {'value': [val] if m else val, 'units': 'm'}, 'route': r.choice(['dict', 'AttrSetup'])}
    elif rk == 'unknown-keyword':
        a['no_such_keyword'] = 1
    elif rk == 'name-not-str':
        op['name'] = {'$np': ['int32', 7]}
    elif rk == 'frame-no-channels':
        if t != 'frame':
            return None
        a['channels'] = {'$tuple': []}
    elif rk == 'bad-assign':
        return 'ASSIGN'
    # a few valid attributes alongside the invalid one, so that a partially applied call is visible
    for kw, lab, k, m in table:
        if kw not in a and k == 'text' and not m and r.random() < 0.7:
            a[kw] = 'valid value set by the rejected call'
    if r.random() < 0.5 and t != 'origin':
        op['set_name'] = 'SET-OF-REJECTED'
    return op


def remove_ops(spec, idxs):
    """Same history without the ops at idxs; references are re-indexed."""
    idxs = set(idxs)
    m = {}
    new = []
    for i, op in enumerate(spec['ops']):
        if i in idxs:
            continue
        m[i] = len(new)
        new.append(copy.deepcopy(op))

    def fix(v):
        if isinstance(v, dict):
            if '$ref' in v:
                return {'$ref': m[v['$ref']]}
            if '$origin_of' in v:
                return {'$origin_of': m[v['$origin_of']]}
            return {k: fix(x) for k, x in v.items()}
        if isinstance(v, list):
            return [fix(x) for x in v]
        return v
    for op in new:
        op['attrs'] = fix(op.get('attrs', {})) if 'attrs' in op else op.get('attrs')
        if op.get('attrs') is None:
            op.pop('attrs', None)
        if 'target' in op:
            op['target'] = m[op['target']]
        if 'origin_reference' in op:
            op['origin_reference'] = fix(op['origin_reference'])
    out = copy.deepcopy(spec)
    out['ops'] = new
    return out


def run_case(case):
    from vf import harness, history, metagen, rp66
    seed = case.get('seed', 0)
    obs, vio = {}, []

    def bump(k, n=1):
        obs[k] = obs.get(k, 0) + n

    r = gen.rng(seed, PROP, case['stratum'], case['index'])
    avoid = metagen.default_avoid()
    base = metagen.meta_spec(r, avoid=avoid, n_objects=r.choice([4, 8]), n_origins=1, origin_pos=r.choice(['first', 'first', 'middle']),
                             mx=8192, later_p=0.0, types=['zone', 'axis', 'parameter', 'equipment', 'tool', 'long_name', 'comment',
                                                           'computation', 'process', 'group', 'calibration_coefficient', 'no_format'])
    base['write'] = {'output_chunk_size': 2 ** 16}

    def describe_diff(a, b):
        try:
            da, db = rp66.decode_file(a), rp66.decode_file(b)
            inv = lambda d: [(s.type, s.name, [o.name for o in s.objects]) for lf in d.lfs for s in lf.sets]
            ia, ib = inv(da), inv(db)
            for x, y in zip(ia, ib):
                if x != y:
                    return f'with rejected call: {x} ; without: {y}'
            if len(ia) != len(ib):
                return f'sets: {len(ia)} vs {len(ib)}: extra {[x[:2] for x in ia if x not in ib][:3]}'
        except Exception as e:   # noqa
            return f'(undecodable: {e})'
        return 'same inventory; attribute or data bytes differ'

    if case['kind'] == 'reject-multilf':
        spec = metagen.meta_spec(r, avoid=avoid, n_objects=r.choice([2, 4]), lf_count=2, n_origins=1, origin_pos='first', later_p=0.0,
                                 types=['zone', 'axis', 'equipment', 'comment', 'long_name'])
        spec['write'] = {'output_chunk_size': 2 ** 16}
        t = r.choice(['zone', 'equipment', 'comment', 'axis'])
        good_lf = r.choice([0, 1])
        sn = r.choice([None, None, 'COMMON-NAME'])
        good = {'op': t, 'lf': good_lf, 'name': f'L{good_lf}-GOOD', 'attrs': {}}
        bad = {'op': t, 'lf': 1 - good_lf, 'name': f'L{1 - good_lf}-BAD', 'attrs': {'no_such_keyword': 1} if r.random() < 0.3 else
               {'zone': {'domain': 'NOT-A-DOMAIN'}, 'equipment': {'status': 7}, 'comment': {'text': 5}, 'axis': {'spacing': 'x'}}[t],
               'expect': 'reject'}
        if sn:
            good['set_name'] = sn
            bad['set_name'] = sn
        order = [good, bad] if r.random() < 0.7 else [bad, good]
        spec['ops'].extend(order)
        rej_idx = spec['ops'].index(bad)
        w1, d1, o1 = history.run_fresh(spec)
        if not o1 or o1[rej_idx][0] == 'ok':
            bump('not-rejected:multilf')
            return {'evals': 0, 'violations': [], 'obs': obs, 'sigs': [], 'sample': None}
        bump('rejected-as-intended')
        bump('rejected-call-other-logical-file')
        w2, d2, o2 = history.run_fresh(remove_ops(spec, [rej_idx]))
        bump('compared')
        label = f'{t} rejected in logical file {1 - good_lf} ({o1[rej_idx][1]}), same set name {sn!r} used by logical file {good_lf}'
        if (w1[0] == 'ok') != (w2[0] == 'ok'):
            vio.append({'prop': PROP, 'kind': 'rejected-call-changes-writability',
                        'mech': 'trace:outcome:other-logical-file:' + ('rejected-call-named-the-set-first' if order[0] is bad else 'rejected-call-came-second'),
                        'detail': f'{label}: with the rejected call {w1[:3]}, without {w2[:3]}'})
        elif w1[0] == 'ok' and d1 != d2:
            vio.append({'prop': PROP, 'kind': 'rejected-call-leaves-trace', 'mech': 'trace:other-logical-file',
                        'detail': f'{label}: files differ; {describe_diff(d1, d2)}'})
        return {'evals': 1, 'violations': vio, 'obs': obs, 'sigs': [f'multilf:{t}:{sn}:{order[0] is good}'],
                'sample': {'type': t, 'set_name': sn, 'rejected_in_lf': 1 - good_lf, 'exception': o1[rej_idx][1:]}}
    if case['kind'] == 'reject-first-origin':
        spec = metagen.meta_spec(r, avoid=avoid, n_objects=r.choice([3, 6]), n_origins=1, origin_pos=r.choice(['middle', 'last', 'last']),
                                 mx=8192, later_p=0.0, types=['zone', 'axis', 'equipment', 'tool', 'long_name', 'comment', 'parameter'])
        spec['write'] = {'output_chunk_size': 2 ** 16}
        oi = next(i_ for i_, o in enumerate(spec['ops']) if o['op'] == 'origin')
        # no explicit references in this history: every object is to get the reference of the origin that is accepted
        for o in spec['ops']:
            o.pop('origin_reference', None)
            if o['op'] == 'origin':
                o['attrs'].pop('origin_reference', None)
        good_ref = r.choice([None, None, 3])
        if good_ref is not None:
            spec['ops'][oi]['attrs']['origin_reference'] = good_ref
        how = r.choice(['creation-time', 'wrong-type', 'non-numeric', 'unknown-keyword'])
        bad = gen.origin_op('REJECTED-ORIGIN', fsn=5)
        bad['attrs']['origin_reference'] = r.choice([7, 130])
        if how == 'creation-time':
            bad['attrs']['creation_time'] = '12 March 2021, about noon'
        elif how == 'wrong-type':
            bad['attrs']['company'] = 12345
        elif how == 'non-numeric':
            bad['attrs']['run_number'] = 'abc'
        else:
            bad['attrs']['no_such_keyword'] = 1
        bad['expect'] = 'reject'
        bad['lf'] = 0
        new = []
        for i_, o in enumerate(spec['ops']):
            if i_ == oi:
                new.append(bad)
            new.append(o)

        def sh(v):
            if isinstance(v, dict):
                if '$ref' in v:
                    return {'$ref': v['$ref'] + (1 if v['$ref'] >= oi else 0)}
                if '$origin_of' in v:
                    return {'$origin_of': v['$origin_of'] + (1 if v['$origin_of'] >= oi else 0)}
                return {k: sh(x) for k, x in v.items()}
            if isinstance(v, list):
                return [sh(x) for x in v]
            return v
        for o in new:
            if o is bad:
                continue
            if 'attrs' in o:
                o['attrs'] = sh(o['attrs'])
            if 'target' in o and o['target'] >= oi:
                o['target'] += 1
        spec['ops'] = new
        rej_idx = oi
        w1, d1, o1 = history.run_fresh(spec)
        if not o1 or o1[rej_idx][0] == 'ok':
            bump('not-rejected:first-origin:' + how)
            return {'evals': 0, 'violations': [], 'obs': obs, 'sigs': [], 'sample': None}
        bump('rejected-as-intended')
        bump('rejected-first-origin')
        w2, d2, o2 = history.run_fresh(remove_ops(spec, [rej_idx]))
        bump('compared')
        label = f'first add_origin rejected ({how}: {o1[rej_idx][1]}) after {oi} objects, then a valid origin (reference {good_ref})'
        if (w1[0] == 'ok') != (w2[0] == 'ok'):
            vio.append({'prop': PROP, 'kind': 'rejected-call-changes-writability', 'mech': f'trace:outcome:first-origin:{how}',
                        'detail': f'{label}: with the rejected call {w1[:3]}, without {w2[:3]}'})
        elif w1[0] == 'ok' and d1 != d2:
            vio.append({'prop': PROP, 'kind': 'rejected-call-leaves-trace', 'mech': f'trace:first-origin:{how}',
                        'detail': f'{label}: files differ (sizes {len(d1)} / {len(d2)}); {describe_diff(d1, d2)}'})
        return {'evals': 1, 'violations': vio, 'obs': obs, 'sigs': [f'first-origin:{how}:{oi}:{good_ref}'],
                'sample': {'rejected': how, 'exception': o1[rej_idx][1:], 'objects_before': oi}}
    if case['kind'] == 'reject-between-writes':
        from vf.checks import c14
        sp = c14.base_spec(r, avoid)
        chans = [(i, o) for i, o in enumerate(sp['ops']) if o['op'] == 'channel']
        frames = [(i, o) for i, o in enumerate(sp['ops']) if o['op'] == 'frame']
        which = r.choice(['cast-dtype', 'cast-dtype', 'dimension', 'frame-index', 'attr-value'])
        ci, co = r.choice([(i, o) for i, o in chans if not o.get('cast_dtype')] or chans)
        if which == 'cast-dtype':
            bad = {'op': 'setattr', 'target': ci, 'field': 'cast_dtype', 'value': {'$dtype': r.choice(['int64', 'uint64', 'float16']), 'as': 'type'}}
        elif which == 'dimension':
            bad = {'op': 'assign', 'target': ci, 'target_op': 'channel', 'kw': 'dimension', 'part': 'value', 'value': ['not a number']}
        elif which == 'frame-index':
            fi, fo = next((i, o) for i, o in frames if o['name'] == 'K-FRAME')
            bad = {'op': 'assign', 'target': fi, 'target_op': 'frame', 'kw': r.choice(['index_min', 'index_max', 'spacing']), 'part': 'value',
                   'value': {'$tuple': [1, 2]}}
        else:
            zi = next(i for i, o in enumerate(sp['ops']) if o.get('name') == 'K-ZONE')
            bad = {'op': 'assign', 'target': zi, 'target_op': 'zone', 'kw': 'domain', 'part': 'value', 'value': 'NOT-A-DOMAIN'}
        bad['expect'] = 'reject'
        # second write: other data (another dtype / width / values), so that everything derived must be derived again
        arrays = {}
        kind2 = r.choice(['other-data-dtype', 'other-data', 'other-data-width'])
        ph_other = c14.make_phase(r, kind2, list(sp['ops']), sp, avoid)
        hist_with = {'base': sp, 'foreign_before': [], 'phases': [{'ops': [], 'write': {'output_chunk_size': 2 ** 16}},
                                                                   {'ops': [bad], 'write': {'output_chunk_size': 2 ** 16}, 'arrays': ph_other.get('arrays')}]}
        hist_without = copy.deepcopy(hist_with)
        hist_without['phases'][1]['ops'] = []
        w1, d1, o1, _ = history.run_history(hist_with)
        rej_idx = len(sp['ops'])
        if len(o1) <= rej_idx or o1[rej_idx][0] == 'ok':
            bump('not-rejected:between-writes:' + which)
            return {'evals': 0, 'violations': [], 'obs': obs, 'sigs': [], 'sample': None}
        bump('rejected-as-intended')
        bump('rejected-assignment-between-writes')
        w2, d2, o2, _ = history.run_history(hist_without)
        bump('compared')
        label = f'write; rejected assignment ({which}: {o1[rej_idx][1]}: {o1[rej_idx][2][:60]}); write with {kind2}'
        if (w1[0] == 'ok') != (w2[0] == 'ok'):
            vio.append({'prop': PROP, 'kind': 'rejected-call-changes-writability', 'mech': f'trace:outcome:between-writes:{which}',
                        'detail': f'{label}: with the rejected assignment {w1[:3]}, without {w2[:3]}'})
        elif w1[0] == 'ok' and d1 != d2:
            vio.append({'prop': PROP, 'kind': 'rejected-call-leaves-trace', 'mech': f'trace:between-writes:{which}',
                        'detail': f'{label}: second files differ (sizes {len(d1)} / {len(d2)}); {describe_diff(d1, d2)}'})
        return {'evals': 1, 'violations': vio, 'obs': obs, 'sigs': [f'between-writes:{which}:{kind2}'],
                'sample': {'rejected': which, 'exception': o1[rej_idx][1:], 'second_write': kind2}}
    if case['kind'] == 'reject':
        t, rk = case['type'], case['rejection']
        ops = base['ops']
        # position: anywhere after the first origin (so that the rejected call has a default origin) or before
        pos = r.randrange(1, len(ops) + 1)
        if rk in ('duplicate-dataset', 'wrong-ref-class', 'frame-no-channels', 'bad-assign'):
            # these need earlier objects (a channel / something to refer to / an object to assign to)
            first_ch = next(i for i, o in enumerate(ops) if o['op'] == 'channel')
            pos = r.randrange(max(first_ch + 1, len(ops) // 2), len(ops) + 1)
        refs = {}
        for i, o in enumerate(ops[:pos]):
            if o['op'] in schema.TYPES:
                refs.setdefault(o['op'], []).append(i)
        bop = bad_op(r, t, rk, refs, ops[:pos])
        if bop is None:
            return {'evals': 0, 'violations': [], 'obs': {'not-applicable': 1}, 'sigs': [], 'sample': None}
        if bop == 'ASSIGN':
            numk = [(kw, k) for kw, lab, k, m in schema.TYPES[t]['attrs'] if k in ('num', 'fdoubl', 'status', 'uvari') and not m]
            if not numk:
                return {'evals': 0, 'violations': [], 'obs': {'not-applicable': 1}, 'sigs': [], 'sample': None}
            cands = [(i, o) for i, o in enumerate(ops[:pos]) if o['op'] == t]
            if not cands:
                # make sure there is an object of this type to assign to (a valid one, appended to the base history)
                if t in ('origin', 'channel', 'frame'):
                    return {'evals': 0, 'violations': [], 'obs': {'not-applicable': 1}, 'sigs': [], 'sample': None}
                base['ops'].append({'op': t, 'name': 'ASSIGN-TARGET', 'attrs': {}, 'lf': 0})
                ops = base['ops']
                pos = len(ops)
                cands = [(len(ops) - 1, ops[-1])]
            i, o = r.choice(cands)
            kw, k = r.choice(numk)
            bop = {'op': 'assign', 'target': i, 'target_op': t, 'kw': kw, 'part': 'value', 'value': 'not a number'}
        bop['lf'] = 0
        bop['expect'] = 'reject'
        # shift references of later ops
        spec = copy.deepcopy(base)

        def shift(v):
            if isinstance(v, dict):
                if '$ref' in v:
                    return {'$ref': v['$ref'] + (1 if v['$ref'] >= pos else 0)}
                if '$origin_of' in v:
                    return {'$origin_of': v['$origin_of'] + (1 if v['$origin_of'] >= pos else 0)}
                return {k: shift(x) for k, x in v.items()}
            if isinstance(v, list):
                return [shift(x) for x in v]
            return v
        new = []
        for i, o in enumerate(spec['ops']):
            if i == pos:
                new.append(bop)
            o = copy.deepcopy(o)
            if i >= pos:
                if 'attrs' in o:
                    o['attrs'] = shift(o['attrs'])
                if 'target' in o and o['target'] >= pos:
                    o['target'] += 1
                if 'origin_reference' in o:
                    o['origin_reference'] = shift(o['origin_reference'])
            new.append(o)
        if pos == len(spec['ops']):
            new.append(bop)
        spec['ops'] = new
        # afterwards: valid calls reusing the rejected name (copy numbers) and, for channels, the dataset name
        reuse = bop['op'] in schema.TYPES and bop['op'] not in ('origin', 'frame', 'channel') and isinstance(bop['name'], str) and r.random() < 0.7
        if reuse:
            good = {'op': bop['op'], 'name': bop['name'], 'attrs': {}, 'lf': 0}
            if bop.get('set_name'):
                good['set_name'] = bop['set_name']
            spec['ops'].append(good)
            bump('name-reused-after-rejection')
        rej_idx = pos
        w1, d1, o1 = history.run_fresh(spec)
        if not o1 or o1[rej_idx][0] == 'ok':
            bump('not-rejected:%s:%s' % (t, rk))
            return {'evals': 0, 'violations': [], 'obs': obs, 'sigs': [], 'sample': None}
        bump('rejected-as-intended')
        bump('rej-' + rk)
        msg = o1[rej_idx][1]
        # TypeError from the Python call machinery (unknown keyword) or name validation happens before registration
        bump('rejection-before-registration' if rk in ('unknown-keyword', 'name-not-str', 'duplicate-dataset', 'frame-no-channels')
             else 'rejection-after-registration')
        others_rejected = [i for i, o in enumerate(o1) if o[0] != 'ok' and i != rej_idx]
        w2, d2, o2 = history.run_fresh(remove_ops(spec, [rej_idx]))
        bump('compared')
        label = f'{t} rejected for {rk} ({msg}) at position {pos}/{len(base["ops"])}' + (', name reused afterwards' if reuse else '')
        if (w1[0] == 'ok') != (w2[0] == 'ok'):
            vio.append({'prop': PROP, 'kind': 'rejected-call-changes-writability', 'mech': f'trace:outcome:{rk}',
                        'detail': f'{label}: with the rejected call {w1[:3]}, without {w2[:3]}'})
        elif w1[0] == 'ok' and d1 != d2:
            vio.append({'prop': PROP, 'kind': 'rejected-call-leaves-trace', 'mech': f'trace:{rk}',
                        'detail': f'{label}: files differ (sizes {len(d1)} / {len(d2)}); {describe_diff(d1, d2)}'})
        sig = f'{t}:{rk}:{"end" if pos == len(base["ops"]) else "mid"}:{reuse}'
        sample = {'type': t, 'rejection': rk, 'position': pos, 'rejected_op': {k: v for k, v in bop.items() if k != 'data'},
                  'exception': o1[rej_idx][1:], 'name_reused': reuse}
        return {'evals': 1, 'violations': vio, 'obs': obs, 'sigs': [sig], 'sample': sample}

    # ---- failed write, cause removed, write again: compare with a fresh specification
    cause = case['cause']
    from vf import spec as S
    import os
    sp = copy.deepcopy(base)
    b = S.build(sp)
    chans = [(i, o) for i, o in enumerate(sp['ops']) if o['op'] == 'channel']
    path = harness.fresh_path()
    first = None
    fresh_spec = copy.deepcopy(sp)
    if cause == 'missing-data':
        # one channel gets no inline data; first write without it fails, second write passes it through data=
        sp2 = copy.deepcopy(sp)
        ci, co = chans[-1]
        sp2['ops'][ci]['data_later'] = sp2['ops'][ci].pop('data')
        b = S.build(sp2)
        first = S.do_write(sp2, b, path, harness.scratch_dir())
        arr = S.make_array(sp2['ops'][ci]['data_later'])
        second = S.do_write(sp2, b, path, harness.scratch_dir(), data={co.get('dataset_name') or co['name']: arr})
    elif cause == 'inconsistent-dimension':
        ci, co = chans[0]
        per_row = co['data']['shape'][1:] or [1]
        b.handles[ci].dimension.value = [per_row[0] + 1]
        first = S.do_write(sp, b, path, harness.scratch_dir())
        b.handles[ci].dimension.value = list(per_row)
        second = S.do_write(sp, b, path, harness.scratch_dir())
        fresh_spec['ops'][ci]['attrs']['dimension'] = list(per_row)
    elif cause == 'flush-error':
        def on_flush(fn, total, k):
            if k == 2:
                raise OSError(28, 'No space left on device (injected)')
        with harness.Taps(on_flush):
            first = S.do_write(sp, b, path, harness.scratch_dir(), output_chunk_size=8192)
        second = S.do_write(sp, b, path, harness.scratch_dir())
    elif cause == 'hc-breach-at-write':
        from dliswriter import high_compatibility_mode
        try:
            with high_compatibility_mode():
                first = S.do_write(sp, b, path, harness.scratch_dir())
        except Exception as e:   # noqa
            first = ('exc', type(e).__name__, str(e)[:200])
        second = S.do_write(sp, b, path, harness.scratch_dir())
    elif cause == 'index-not-1d':
        # an indexed frame whose index channel first gets 2-D data (refused while the frame is set up from the data),
        # then the proper 1-D data with another range
        import numpy as np
        n = r.choice([4, 9])
        sp['ops'].append(gen.channel_op('FW-INDEX', '<f8', (n,), fill={'kind': 'lin', 'start': r.choice([10.0, -5.0]), 'step': 0.5}))
        sp['ops'].append(gen.channel_op('FW-CURVE', '<f4', (n,), fill={'kind': 'pos', 'tag': 7}))
        ci = len(sp['ops']) - 2
        sp['ops'].append(gen.frame_op('FW-FRAME', [ci, ci + 1], index_type=r.choice(['BOREHOLE-DEPTH', 'TIME'])))
        for o in sp['ops'][-3:]:
            o['lf'] = 0
        fresh_spec = copy.deepcopy(sp)
        b = S.build(sp)
        bad = np.arange(2 * n, dtype=np.float64).reshape(n, 2) * 100.0 + 5000.0
        first = S.do_write(sp, b, path, harness.scratch_dir(), data={'FW-INDEX': bad})
        second = S.do_write(sp, b, path, harness.scratch_dir())
    elif cause == 'element-limit-exceeded-then-other-width':
        # a channel with an ELEMENT-LIMIT of the user's and no DIMENSION first gets data WIDER than the limit (refused after
        # the dimension has been taken from those data), then data of another width that fits
        import numpy as np
        n = r.choice([3, 6])
        lim = r.choice([4, 5])
        fit = r.choice([2, 3, lim])
        sp['ops'].append(gen.channel_op('FW-DEPTH', '<f8', (n,), fill={'kind': 'lin', 'start': 1.0, 'step': 1.0}))
        wide = gen.channel_op('FW-WIDE', '<f4', (n, fit), fill={'kind': 'pos', 'tag': 7})
        wide['attrs']['element_limit'] = [lim]
        sp['ops'].append(wide)
        ci = len(sp['ops']) - 2
        sp['ops'].append(gen.frame_op('FW-FRAME', [ci, ci + 1]))
        for o in sp['ops'][-3:]:
            o['lf'] = 0
        fresh_spec = copy.deepcopy(sp)
        b = S.build(sp)
        bad = np.arange(n * (lim + 2), dtype=np.float32).reshape(n, lim + 2)
        first = S.do_write(sp, b, path, harness.scratch_dir(), data={'FW-WIDE': bad})
        second = S.do_write(sp, b, path, harness.scratch_dir())
    elif cause == 'frameless-channel-axis-mismatch':
        # a channel in no frame whose DIMENSION does not fit its axis: refused while the CHANNEL set is written (after the
        # ELEMENT-LIMIT default has been filled in); then the dimension is corrected
        k_ = r.choice([2, 3, 4])
        bad_dim = r.choice([k_ + 1, k_ + 3, 1])
        sp['ops'].append({'op': 'axis', 'name': 'FW-AXIS', 'attrs': {'coordinates': [float(j) for j in range(k_)]}, 'lf': 0})
        ai = len(sp['ops']) - 1
        lon = gen.channel_op('FW-LONER', '<f4', (3, k_), fill={'kind': 'pos', 'tag': 8}, lf=0)
        lon['attrs'].update({'dimension': [bad_dim], 'axis': [{'$ref': ai}]})
        sp['ops'].append(lon)
        ci = len(sp['ops']) - 1
        fresh_spec = copy.deepcopy(sp)
        fresh_spec['ops'][ci]['attrs']['dimension'] = [k_]
        b = S.build(sp)
        first = S.do_write(sp, b, path, harness.scratch_dir())
        b.handles[ci].dimension.value = [k_]
        second = S.do_write(sp, b, path, harness.scratch_dir())
    elif cause == 'index-2d-then-channel-removed':
        # an indexed frame whose first channel is 2-D: refused while the frame is set up from the data (its channels have
        # been set up by then); the user takes the channel out of the frame
        n = r.choice([4, 9])
        sp['ops'].append(gen.channel_op('FW-IMAGE', r.choice(['<i2', '<f8']), (n, 2), fill={'kind': 'pos', 'tag': 6}, lf=0))
        sp['ops'].append(gen.channel_op('FW-CURVE', '<f4', (n,), fill={'kind': 'lin', 'start': 1.0, 'step': 1.0}, lf=0))
        ci = len(sp['ops']) - 2
        sp['ops'].append(dict(gen.frame_op('FW-FRAME', [ci, ci + 1], index_type=r.choice(['BOREHOLE-DEPTH', 'TIME'])), lf=0))
        fi = len(sp['ops']) - 1
        fresh_spec = copy.deepcopy(sp)
        fresh_spec['ops'].append({'op': 'assign', 'target': fi, 'target_op': 'frame', 'kw': 'channels', 'part': 'value',
                                  'value': {'$tuple': [{'$ref': ci + 1}]}})
        b = S.build(sp)
        first = S.do_write(sp, b, path, harness.scratch_dir())
        b.handles[fi].channels.value = [b.handles[ci + 1]]
        second = S.do_write(sp, b, path, harness.scratch_dir())
    elif cause == 'hc-nonuniform-index':
        # high-compatibility mode refuses a non-uniform index; the same rows without the irregular tail are fine
        from vf.checks import c17
        sp = c17.compliant_spec(r)
        for o in sp['ops']:
            if o['op'] == 'origin':
                o['attrs']['file_set_number'] = 7      # (the default is a random number)
        di = next(i for i, o in enumerate(sp['ops']) if o.get('name') == 'DEPTH')
        n = sp['ops'][di]['data']['shape'][0]
        keep = n - 1 if n <= 3 else r.choice([n - 1, n - 2])
        vals = [100.0 + 0.5 * j for j in range(keep)] + [100.0 + 0.5 * keep + 7.25 * (j + 1) for j in range(n - keep)]
        sp['ops'][di]['data']['fill'] = {'kind': 'seq', 'values': vals}
        sp['write'] = {'output_chunk_size': 2 ** 16, 'hc': True}
        b = S.build(sp)
        first = S.do_write(sp, b, path, harness.scratch_dir())
        second = S.do_write(sp, b, path, harness.scratch_dir(), to_idx=keep)
        fresh_spec = copy.deepcopy(sp)
        fresh_spec['write']['to_idx'] = keep
    elif cause == 'incomplete-then-completed':
        # a write refused because the file is not complete yet (no channels / no frames), then the rest is added
        types = ['zone', 'axis', 'equipment', 'comment', 'long_name', 'tool', 'message']
        sp = gen.base_spec(8192)
        sp['write'] = {'output_chunk_size': 2 ** 16}
        ops = sp['ops']
        ops.append(gen.origin_op('ORIGIN', fsn=3))
        for j, t in enumerate(r.sample(types, r.choice([1, 2, 3]))):
            ops.append({'op': t, 'name': f'EARLY-{j}', 'attrs': {}})
        with_channels = r.random() < 0.5
        if with_channels:
            ops.append(gen.channel_op('CH-EARLY', '<f4', (3,), fill={'kind': 'pos', 'tag': 1}))
        k_ = len(ops)
        if not with_channels:
            ops.append(gen.channel_op('CH-LATE', '<f4', (3,), fill={'kind': 'pos', 'tag': 2}))
        for j, t in enumerate(r.sample(types, r.choice([0, 1, 2]))):
            ops.append({'op': t, 'name': f'MIDDLE-{j}', 'attrs': {}})
        ch_i = next(i_ for i_, o in enumerate(ops) if o['op'] == 'channel')
        ops.append(gen.frame_op('FRAME', [ch_i]))
        for j, t in enumerate(r.sample(types, r.choice([0, 1, 2]))):
            ops.append({'op': t, 'name': f'LATE-{j}', 'attrs': {}})
        for o in ops:
            o['lf'] = 0
        fresh_spec = copy.deepcopy(sp)
        part = copy.deepcopy(sp)
        part['ops'] = part['ops'][:k_]
        b = S.build(part)
        first = S.do_write(part, b, path, harness.scratch_dir())
        for i_ in range(k_, len(ops)):
            try:
                S.run_op(b, i_, ops[i_], 'inline')
                b.outcomes.append(('ok',))
            except Exception as e:  # noqa
                b.outcomes.append(('exc', type(e).__name__, str(e)[:200]))
        second = S.do_write(sp, b, path, harness.scratch_dir())
    elif cause == 'unequal-rows':
        ci, co = chans[-1]
        import numpy as np
        good = b.arrays[ci]
        key = co.get('dataset_name') or co['name']
        longer = np.concatenate([good, good])
        first = S.do_write(sp, b, path, harness.scratch_dir(), data={key: longer})
        second = S.do_write(sp, b, path, harness.scratch_dir())
    data = None
    if second[0] == 'ok':
        with open(path, 'rb') as f:
            data = f.read()
    if os.path.exists(path):
        os.remove(path)
    bump('failed-write-' + cause)
    if first[0] == 'ok':
        bump('first-write-did-not-fail:' + cause)
    else:
        bump('first-write-failed:' + cause)
    fw, fdata, _ = history.run_fresh(fresh_spec)
    bump('compared')
    label = f'failed write ({cause}: {first[1:3] if first[0] != "ok" else "did not fail"}), cause removed, written again'
    if (second[0] == 'ok') != (fw[0] == 'ok'):
        vio.append({'prop': PROP, 'kind': 'failed-write-changes-writability', 'mech': f'failed-write-outcome:{cause}',
                    'detail': f'{label}: second write {second[:3]}, fresh specification {fw[:3]}'})
    elif second[0] == 'ok' and data != fdata:
        vio.append({'prop': PROP, 'kind': 'failed-write-leaves-trace', 'mech': f'failed-write:{cause}',
                    'detail': f'{label}: differs from the fresh specification (sizes {len(data)} / {len(fdata)}); {describe_diff(data, fdata)}'})
    sample = {'cause': cause, 'first_write': first[:3], 'second_write': second[:2]}
    return {'evals': 1, 'violations': vio, 'obs': obs, 'sigs': [f'failed-write:{cause}:{first[0]}'], 'sample': sample}
