"""Harness-side contracts on the real functions (DESIGN.md 3.4).

Attached from outside (no repository edit).  Recording, not raising: a broken condition appends an
event to VIOLATIONS and lets the execution continue.  EVALS counts evaluations per contract; zero
evaluations on a workload that must reach a contract is reported as inconclusive by the checks.

icontract is used for the class invariant of BufferedOutput (named condition, explicit error=);
the per-call pre/post conditions are plain wrappers because they need the returned value, the
arguments and the instance together and must not raise.
"""
from __future__ import annotations
import functools
import os
import struct
import traceback
from collections import Counter

EVALS = Counter()
VIOLATIONS = []
_attached = False


def _record(prop, contract, mech, detail):
    if len(VIOLATIONS) < 200:
        VIOLATIONS.append({'prop': prop, 'kind': 'contract:' + contract, 'mech': mech, 'detail': detail[:500],
                           'stack': ''.join(traceback.format_stack(limit=8)[:-2])[-1200:]})


def reset():
    EVALS.clear()
    del VIOLATIONS[:]


def drain():
    out = list(VIOLATIONS)
    del VIOLATIONS[:]
    return out


def attach():
    global _attached
    if _attached:
        return
    _attached = True
    from dliswriter.logical_record.core.logical_record.logical_record_bytes import LogicalRecordBytes
    from dliswriter.file import writer as W

    # ---- LogicalRecordBytes.make_segment
    orig_ms = LogicalRecordBytes.make_segment

    @functools.wraps(orig_ms)
    def make_segment(self, start_pos=0, n_bytes=None):
        res = orig_ms(self, start_pos, n_bytes)
        EVALS['make_segment'] += 1
        try:
            bts, size = res
            body = self._bts
            end = len(body) if n_bytes is None else start_pos + n_bytes
            want = body[start_pos:end]
            if len(bts) != size:
                _record('C01', 'make_segment', 'size-vs-bytes', f'returned size {size}, len(bytes) {len(bts)}')
            if size % 2 or size < 16:
                _record('C01', 'make_segment', 'segment-size', f'size {size}')
            L, attr, typ = struct.unpack('>HBB', bytes(bts[:4]))
            if L != len(bts):
                _record('C01', 'make_segment', 'length-field', f'length field {L}, bytes {len(bts)}')
            if attr & 0x1E:
                _record('C01', 'make_segment', 'forbidden-attribute-bits', hex(attr))
            pad = len(bts) - 4 - len(want)
            if bool(attr & 1) != (pad > 0):
                _record('C01', 'make_segment', 'pad-bit-vs-pad-bytes', f'attr {attr:#x}, {pad} pad bytes')
            if pad > 0 and bts[-1] != pad:
                _record('C01', 'make_segment', 'pad-count', f'{pad} pad bytes, count byte {bts[-1]}')
            if bytes(bts[4:4 + len(want)]) != bytes(want):
                _record('C02', 'make_segment', 'body-slice', f'start {start_pos} n {n_bytes}')
            if bool(attr & 0x40) != (start_pos != 0):
                _record('C02', 'make_segment', 'predecessor-bit', f'start {start_pos}, attr {attr:#x}')
            if bool(attr & 0x20) != (end != len(body)):
                _record('C02', 'make_segment', 'successor-bit', f'end {end} of {len(body)}, attr {attr:#x}')
            if bool(attr & 0x80) != bool(self._is_eflr):
                _record('C02', 'make_segment', 'structure-bit', f'is_eflr {self._is_eflr}, attr {attr:#x}')
            if bytes([typ]) != bytes(self._lr_type_struct):
                _record('C02', 'make_segment', 'type-byte', f'{typ} vs {self._lr_type_struct!r}')
        except Exception as e:     # a contract must never break the execution
            _record('C01', 'make_segment', 'contract-error', repr(e))
        return res
    LogicalRecordBytes.make_segment = make_segment

    # ---- LogicalRecordBytes.make_segments (generator): conservation + per-segment bound
    orig_mss = LogicalRecordBytes.make_segments

    @functools.wraps(orig_mss)
    def make_segments(self, max_n_bytes):
        total = b''
        n = 0
        for seg, size in orig_mss(self, max_n_bytes):
            n += 1
            try:
                L, attr, typ = struct.unpack('>HBB', bytes(seg[:4]))
                pad = seg[-1] if attr & 1 else 0
                total += bytes(seg[4:len(seg) - pad])
                if size > max_n_bytes + 4:
                    _record('C01', 'make_segments', 'segment-exceeds-capacity', f'{size} > {max_n_bytes}+4')
            except Exception as e:
                _record('C02', 'make_segments', 'contract-error', repr(e))
            yield seg, size
        EVALS['make_segments'] += 1
        if total != bytes(self._bts):
            _record('C02', 'make_segments', 'conservation', f'{len(self._bts)} bytes in, {len(total)} out over {n} segments')
    LogicalRecordBytes.make_segments = make_segments

    # ---- DLISWriter._make_visible_record
    orig_vr = W.DLISWriter._make_visible_record

    @functools.wraps(orig_vr)
    def _make_visible_record(self, body, size=None):
        res = orig_vr(self, body, size)
        EVALS['_make_visible_record'] += 1
        try:
            L, m1, m2 = struct.unpack('>HBB', bytes(res[:4]))
            if L != len(res):
                _record('C01', '_make_visible_record', 'vr-length-field', f'{L} vs {len(res)}')
            if (m1, m2) != (0xFF, 0x01):
                _record('C01', '_make_visible_record', 'vr-marker', f'{m1:#x} {m2:#x}')
            if len(res) > self._visible_record_length:
                _record('C01', '_make_visible_record', 'vr-too-long', f'{len(res)} > {self._visible_record_length}')
        except Exception as e:
            _record('C01', '_make_visible_record', 'contract-error', repr(e))
        return res
    W.DLISWriter._make_visible_record = _make_visible_record

    # ---- ByteWriter.write_bytes: on-disk size equals the reported total
    orig_wb = W.ByteWriter.write_bytes

    @functools.wraps(orig_wb)
    def write_bytes(self, bts, size=None):
        res = orig_wb(self, bts, size)
        EVALS['write_bytes'] += 1
        try:
            sz = os.path.getsize(self._filename)
            if sz != self._total_size:
                _record('C10', 'write_bytes', 'size-accounting', f'on disk {sz}, total_size {self._total_size}')
        except OSError:
            pass
        return res
    W.ByteWriter.write_bytes = write_bytes

    # ---- BufferedOutput class invariant (icontract)
    try:
        import icontract

        class InvariantBroken(Exception):
            pass

        def buffer_fill_within_bounds(self):
            EVALS['BufferedOutput.invariant'] += 1
            ok = 0 <= self._filled_size <= self._buffer_size == len(self._bts)
            if not ok:
                _record('C10', 'BufferedOutput.invariant', 'buffer-bounds',
                        f'filled {self._filled_size}, size {self._buffer_size}, len {len(self._bts)}')
            return True     # recording contract

        W.BufferedOutput = icontract.invariant(buffer_fill_within_bounds, error=InvariantBroken)(W.BufferedOutput)
    except Exception as e:      # icontract absent: plain wrapper
        EVALS['icontract-unavailable'] += 1
        orig_add = W.BufferedOutput.add_bytes

        @functools.wraps(orig_add)
        def add_bytes(self, bts, size=None):
            res = orig_add(self, bts, size)
            EVALS['BufferedOutput.invariant'] += 1
            if not (0 <= self._filled_size <= self._buffer_size == len(self._bts)):
                _record('C10', 'BufferedOutput.invariant', 'buffer-bounds',
                        f'filled {self._filled_size}, size {self._buffer_size}, len {len(self._bts)}')
            return res
        W.BufferedOutput.add_bytes = add_bytes


# ------------------------------------------------------------------------------------------------
# codec contracts: every call of the real primitive encoders, cached or not, round-trips through
# the independent reference decoder and consumes exactly the returned length (C06 on every call
# made by every end-to-end workload).
# ------------------------------------------------------------------------------------------------
_codec_attached = False


def attach_codec():
    global _codec_attached
    if _codec_attached:
        return
    _codec_attached = True
    import sys
    import math
    import datetime as dt
    from vf import rp66
    from dliswriter.utils.internal import struct_writer as SW
    from dliswriter.utils.internal.internal_enums import RepresentationCode as RC

    def check(name, code, value, res):
        EVALS['codec:' + name] += 1
        try:
            d = rp66.decode_exact(code, bytes(res))
        except rp66.Malformed as e:
            _record('C06', name, 'undecodable:' + rp66.CODE_NAMES.get(code, str(code)),
                    f'{value!r:.80} -> {bytes(res)[:24].hex()}: {e}')
            return
        ok = True
        if code == 18:
            ok = d == value
        elif code in (19, 20):
            ok = d == str(value)
        elif code == 21:
            try:
                u = value.astimezone(dt.timezone.utc)
                ok = d[0] == u.year and d[2:7] == (u.month, u.day, u.hour, u.minute, u.second) and \
                    abs(d[7] - u.microsecond / 1000.0) <= 1.0 and d[1] == 2
            except Exception:
                ok = True
        elif code == 23:
            ok = d == (value.origin_reference, value.copy_number, value.name)
        elif code == 24:
            ok = d == (value.parent.set_type, value.origin_reference, value.copy_number, value.name)
        elif code == 26:
            ok = d == int(value)
        elif code in (12, 13, 14, 15, 16, 17):
            ok = d == value
        elif code == 7:
            ok = (d == value and math.copysign(1, d) == math.copysign(1, value)) or (d != d and value != value)
        if not ok:
            _record('C06', name, 'roundtrip:' + rp66.CODE_NAMES.get(code, str(code)),
                    f'{value!r:.80} encoded as {bytes(res)[:24].hex()} decodes to {d!r:.80}')

    def wrap(fn, name, code_of):
        def w(*a, **kw):
            res = fn(*a, **kw)
            try:
                code, value = code_of(*a, **kw)
                if code is not None:
                    check(name, code, value, res)
            except Exception as e:
                _record('C06', name, 'contract-error', repr(e))
            return res
        w.__name__ = getattr(fn, '__name__', name)
        w.__wrapped_by_vf__ = fn
        return w

    originals = {
        'write_struct_uvari': (SW.write_struct_uvari, lambda v: (18, v)),
        'write_struct_ascii': (SW.write_struct_ascii, lambda v: (20, v)),
        'write_struct_dtime': (SW.write_struct_dtime, lambda v: (21, v)),
        'write_struct_obname': (SW.write_struct_obname, lambda v: (23, v)),
        'write_struct_objref': (SW.write_struct_objref, lambda v: (24, v)),
        'write_struct_status': (SW.write_struct_status, lambda v: (26, v)),
        'write_struct': (SW.write_struct, lambda rc, v: (int(rc) if int(rc) in (7, 12, 13, 14, 15, 16, 17, 18, 19, 20, 21, 23, 24, 26)
                                                        else None, v)),
    }
    if hasattr(SW, 'write_struct_ident'):
        originals['write_struct_ident'] = (SW.write_struct_ident, lambda v: (19, v))
    repl = {}
    for name, (fn, code_of) in originals.items():
        repl[id(fn)] = wrap(fn, name, code_of)
    # re-bind in every dliswriter module namespace and in the dispatch dict
    for mname, mod in list(sys.modules.items()):
        if not mname.startswith('dliswriter') or mod is None:
            continue
        for attr, val in list(vars(mod).items()):
            if callable(val) and id(val) in repl:
                setattr(mod, attr, repl[id(val)])
    for k, v in list(SW._struct_dict.items()):
        if id(v) in repl:
            SW._struct_dict[k] = repl[id(v)]
