"""Expected model of a file, computed from the Spec alone (no dliswriter import).

See DESIGN.md 3.2.  Inputs: the spec and the per-op outcomes recorded by spec.build (which ops
returned normally) -- an op that raised contributes nothing (C20 checks that separately).
"""
from __future__ import annotations
import datetime as _dt
import math
from dataclasses import dataclass, field
from typing import Any, Optional

from . import schema


@dataclass
class ExpAttr:
    label: str
    kind: str
    multi: bool
    value: Any = None           # normalised python value: list (multi) or scalar; None = unassigned
    units: Optional[str] = None
    assigned: bool = False
    units_assigned: bool = False
    route: str = 'kw'


@dataclass
class ExpObj:
    op_index: int
    op: str
    lf: int
    set_type: str
    set_name: Optional[str]
    name: str
    attrs: dict                 # LABEL -> ExpAttr
    origin: Any = None          # None (default) | int (explicit) | ('origin_of', opidx)
    created_after_origin: bool = True


@dataclass
class ExpFrame:
    op_index: int
    lf: int
    channel_ops: list
    index_type: Any = None


@dataclass
class ExpLF:
    header_id: str
    seq: int
    objects: list = field(default_factory=list)
    nf_payloads: list = field(default_factory=list)     # (nf op index, bytes)
    frames: list = field(default_factory=list)

    def sets(self):
        """ordered dict (set_type, set_name) -> [ExpObj] in creation order."""
        d = {}
        for o in self.objects:
            d.setdefault((o.set_type, o.set_name), []).append(o)
        return d


def flatten(v):
    out = []
    for x in v:
        if isinstance(x, list):
            out.extend(flatten(x))
        else:
            out.append(x)
    return out


def norm_scalar(v):
    """Spec scalar -> comparable python value."""
    if isinstance(v, dict):
        if '$enum' in v:
            return v['value']
        if '$dt' in v:
            return ('dt', dt_to_ms(v))
        if '$ref' in v:
            return ('ref', v['$ref'])
        if '$np' in v:
            import numpy as np
            x = np.dtype(v['$np'][0]).type(v['$np'][1])
            return x.item()
        if '$float' in v:
            return float(v['$float'])
        if '$tuple' in v:
            return [norm_scalar(x) for x in v['$tuple']]
        raise ValueError(v)
    return v


EPOCH = _dt.datetime(1900, 1, 1, tzinfo=_dt.timezone.utc)


def dt_to_ms(v) -> float:
    """{'$dt': [...], 'tz': minutes|None} -> milliseconds (float, un-rounded) since 1900-01-01 UTC.
    A naive date-time is local time of the process (TZ is pinned by the runner)."""
    from .spec import make_datetime
    t = make_datetime(v)        # (with its fold: the second occurrence of a repeated wall-clock time is another instant)
    if t.tzinfo is None:
        t = t.astimezone()      # local zone of the process
    delta = t - EPOCH
    return (delta.days * 86400 + delta.seconds) * 1000 + delta.microseconds / 1000.0


def parse_dt_string(s: str):
    for fmt in ("%Y/%m/%d %H:%M:%S", "%Y.%m.%d %H:%M:%S"):
        try:
            t = _dt.datetime.strptime(s, fmt)
            return {'$dt': [t.year, t.month, t.day, t.hour, t.minute, t.second, 0], 'tz': None}
        except ValueError:
            pass
    return None


def norm_value(kind: str, multi: bool, v):
    """Normalise an assigned value for comparison.  Returns scalar or flat list."""
    if isinstance(v, dict) and '$tuple' in v:
        v = v['$tuple']
    if multi:
        if not isinstance(v, list):
            v = [v]
        flat = flatten([norm_scalar(x) if not isinstance(x, list) else _norm_list(x) for x in v])
        return [norm_one(kind, x) for x in flat]
    return norm_one(kind, norm_scalar(v))


def _norm_list(v):
    return [norm_scalar(x) if not isinstance(x, list) else _norm_list(x) for x in v]


def norm_one(kind, x):
    if kind in ('dtime', 'dtf') and isinstance(x, str):
        p = parse_dt_string(x)
        if p is not None:
            return ('dt', dt_to_ms(p))
    if kind == 'status' and isinstance(x, (bool, int, float)):
        return int(x)
    if kind == 'ushort' and isinstance(x, bool):
        return int(x)
    return x


def interpret(op: str, kw: str, v):
    """Spec attribute value -> (value-spec, units-spec, route)."""
    if isinstance(v, dict) and '$setup' in v:
        inner = v['$setup']
        return inner.get('value'), inner.get('units'), v.get('route', 'dict')
    return v, None, 'kw'


def units_str(u):
    if u is None:
        return None
    if isinstance(u, dict) and '$enum' in u:
        return u['value']
    return u


def expected_model(spec: dict, outcomes: list) -> list:
    lfs = []
    for l in spec.get('lfs', [{}]):
        lfs.append(ExpLF(l.get('fh_id', 'FILE-HEADER'), l.get('fh_sequence_number', 1)))
    objs = {}
    origin_seen = [False] * len(lfs)
    for i, op in enumerate(spec['ops']):
        ok = i < len(outcomes) and outcomes[i][0] == 'ok'
        kind = op['op']
        if kind in schema.TYPES:
            if not ok:
                continue
            t = schema.TYPES[kind]
            table = schema.attr_table(kind)
            attrs = {}
            for kw, (lab, k, multi) in table.items():
                attrs[lab] = ExpAttr(lab, k, multi)
            for kw, v in op.get('attrs', {}).items():
                if v is None or kw not in table:
                    continue
                lab, k, multi = table[kw]
                val, un, route = interpret(kind, kw, v)
                if isinstance(val, dict) and '$ref' in val and not (val['$ref'] < len(outcomes) and outcomes[val['$ref']][0] == 'ok'):
                    # the call that should have made the referred object was rejected: the harness has no object to pass
                    # (it passes None, i.e. nothing is assigned)
                    val = None
                a = attrs[lab]
                a.route = route
                if val is not None:
                    a.value = norm_value(k, multi, val)
                    a.assigned = True
                if un is not None:
                    a.units = units_str(un)
                    a.units_assigned = True
            name = op['name']
            o = ExpObj(i, kind, op.get('lf', 0), t['set'], op.get('set_name') or None, name, attrs,
                       op.get('origin_reference'), origin_seen[op.get('lf', 0)])
            if kind == 'origin':
                origin_seen[op.get('lf', 0)] = True
            objs[i] = o
            lfs[o.lf].objects.append(o)
            if kind == 'frame':
                chans = op.get('attrs', {}).get('channels')
                cv, _, _ = interpret(kind, 'channels', chans)
                if isinstance(cv, dict) and '$tuple' in cv:
                    cv = cv['$tuple']
                lfs[o.lf].frames.append(ExpFrame(i, o.lf, [c['$ref'] for c in (cv or [])]))
        elif kind == 'nf_data':
            if not ok:
                continue
            p = op['payload']
            pb = bytes.fromhex(p['$bytes']) if isinstance(p, dict) else p.encode('ascii')
            lfs[op.get('lf', 0)].nf_payloads.append((op['target'], pb))
        elif kind == 'assign':
            if not ok or op['target'] not in objs:
                continue
            o = objs[op['target']]
            lab, k, multi = schema.attr_table(o.op)[op['kw']]
            a = o.attrs[lab]
            if op.get('part', 'value') == 'value':
                if op['value'] is None:         # `.value = None` clears the attribute
                    a.value = None
                    a.assigned = False
                else:
                    a.value = norm_value(k, multi, op['value'])
                    a.assigned = True
                a.route = 'later'
            else:
                a.units = units_str(op['value'])
                a.units_assigned = True
        elif kind == 'set_header':
            if ok:
                l = lfs[op.get('lf', 0)]
                if op['field'] == 'header_id':
                    l.header_id = op['value']
                elif op['field'] == 'sequence_number':
                    l.seq = op['value']
        elif kind == 'inplace':
            if ok and op['target'] in objs:
                o = objs[op['target']]
                lab, k, multi = schema.attr_table(o.op)[op['kw']]
                a = o.attrs[lab]
                if isinstance(a.value, list):
                    if op['how'] == 'pop':
                        a.value = a.value[:-1]
                    elif op['how'] == 'dup':
                        a.value = a.value + a.value[:1]
                    else:
                        a.value = []
                    if not a.value:             # an empty value list is an absent attribute
                        a.value = None
                        a.assigned = False
        elif kind == 'rename_set':
            if ok and op['target'] in objs:
                t_ = objs[op['target']]
                key = (t_.lf, t_.set_type, t_.set_name)
                for o in lfs[t_.lf].objects:
                    if (o.lf, o.set_type, o.set_name) == key:
                        o.set_name = op['value'] or None
        elif kind == 'setattr':
            if not ok or op['target'] not in objs:
                continue
            o = objs[op['target']]
            if op['field'] == 'name':
                o.name = op['value']
            elif op['field'] == 'origin_reference':
                o.origin = op['value']
    return lfs


# ------------------------------------------------------------------------------------------------
# value comparison (the property's equality, no stricter)
# ------------------------------------------------------------------------------------------------

def num_equal(code: int, decoded, expected) -> bool:
    if isinstance(expected, bool):
        expected = int(expected)
    if not isinstance(expected, (int, float)):
        return False
    if code in schema.INT_CODES:
        if isinstance(expected, float):
            if not expected.is_integer():
                return False
            expected = int(expected)
        return decoded == expected
    if code in (2, 7):
        e = float(expected)
        if code == 2:
            import struct
            try:
                e = struct.unpack('>f', struct.pack('>f', e))[0]
            except OverflowError:
                return False
        if math.isnan(e):
            return isinstance(decoded, float) and math.isnan(decoded)
        return decoded == e and math.copysign(1, decoded) == math.copysign(1, e)
    return False


def dtime_equal(decoded_tuple, expected_ms: float) -> bool:
    y, tz, mo, d, h, mi, s, ms = decoded_tuple
    if tz != 2:
        # local standard / daylight: cannot be mapped to an instant without the zone; the writer
        # documents UTC.  Compare as if UTC but report separately.
        pass
    t = _dt.datetime(y, mo, d, h, mi, s, tzinfo=_dt.timezone.utc) - EPOCH
    got = (t.days * 86400 + t.seconds) * 1000 + ms
    return abs(got - expected_ms) <= 1.0
