"""Fresh-process execution of one specification: python -m vf.fresh <spec.json> <out.dlis> <result.json>"""
import json
import os
import sys


def main(argv):
    spec_path, out_path, res_path = argv
    spec = json.load(open(spec_path))
    from vf import harness, spec as S
    harness.quiet()
    b = S.build(spec)
    res = {'build_error': b.error, 'outcomes': b.outcomes}
    if b.error is None:
        scratch = os.path.dirname(out_path)
        res['write'] = S.do_write(spec, b, out_path, scratch)
    json.dump(res, open(res_path, 'w'))


if __name__ == '__main__':
    main(sys.argv[1:])
