"""Workload generators (DESIGN.md 3.3).  Every random choice derives from
random.Random(f"{seed}/{prop}/{stratum}/{index}") so any case is reproducible from those four."""
from __future__ import annotations
import random
import numpy as np
import string

from . import schema

DTYPES = ['int8', 'int16', 'int32', 'uint8', 'uint16', 'uint32', 'float32', 'float64']
DT_CHAR = {'int8': 'i1', 'int16': 'i2', 'int32': 'i4', 'uint8': 'u1', 'uint16': 'u2', 'uint32': 'u4',
           'float32': 'f4', 'float64': 'f8'}
LAYOUTS = ['C', 'F', 'strided', 'view', 'readonly']


def rng(seed, prop, stratum, index) -> random.Random:
    return random.Random(f'{seed}/{prop}/{stratum}/{index}')


def dtstr(name: str, order: str = '<') -> str:
    c = DT_CHAR[name]
    return (order if c[1] != '1' else '|') + c


# my own copy of a few enum members (name -> value), so that generators do not read dliswriter.enums
UNIT_MEMBERS = {'METER': 'm', 'SECOND': 's', 'FOOT': 'ft', 'INCH': 'in', 'PASCAL': 'Pa', 'KELVIN': 'K',
                'MICROSECOND': 'us', 'DEGREE_ANGLE': 'deg'}
UNIT_STRINGS = ['m', 's', 'ft', 'in', 'Pa', 'K', 'us', 'deg', 'ohm', 'V']
NONSTD_UNITS = ['furlong', 'm/s2x', 'My Unit', 'x' * 40]
INDEX_TYPES = ['ANGULAR-DRIFT', 'BOREHOLE-DEPTH', 'NON-STANDARD', 'RADIAL-DRIFT', 'VERTICAL-DEPTH']
PROPERTIES = ['AVERAGED', 'CALIBRATED', 'CHANGED-INDEX', 'COMPUTED', 'DEPTH-MATCHED', 'DERIVED', 'FILTERED',
              'NORMALIZED', 'OVER-SAMPLED', 'PATCHED', 'RE-SAMPLED', 'SPLICED', 'SQUARED', 'STACKED',
              'STANDARD-DEVIATION', 'UNDER-SAMPLED']
EQ_TYPES = ['Adapter', 'Board', 'Cable', 'Sonde', 'Tool', 'Pad', 'Gun']
EQ_LOCATIONS = ['Logging-System', 'Remote', 'Rig', 'Well']
PHASES = ['AFTER', 'BEFORE', 'MASTER']
PROCESS_STATUS = ['COMPLETE', 'ABORTED', 'IN-PROGRESS']
ZONE_DOMAINS = ['BOREHOLE-DEPTH', 'TIME', 'VERTICAL-DEPTH']

ENUM_IDENT = {
    ('frame', 'index_type'): INDEX_TYPES,
    ('equipment', 'eq_type'): EQ_TYPES,
    ('equipment', 'location'): EQ_LOCATIONS,
    ('calibration_measurement', 'phase'): PHASES,
    ('process', 'status'): PROCESS_STATUS,
    ('zone', 'domain'): ZONE_DOMAINS,
    ('channel', 'properties'): PROPERTIES,
    ('computation', 'properties'): PROPERTIES,
    ('process', 'properties'): PROPERTIES,
    ('channel', 'units'): UNIT_STRINGS,
}
# free text for the "soft" enumerations (accepted with a warning, written verbatim), incl. strings spelled like the NAMES of
# the library's enum members (which are not values of the enumerations)
FREE_UNITS = ['OHM', 'BAR', 'FOOT', 'DAY', 'KELVIN', 'METER', 'SECOND', 'Ohm', 'furlong']
SOFT_FREE = {
    ('frame', 'index_type'): ['BOREHOLE_DEPTH', 'VERTICAL_DEPTH', 'RADIAL_DRIFT', 'MY-INDEX'],
    ('equipment', 'eq_type'): ['TOOL', 'SONDE', 'CABLE', 'Gizmo'],
    ('equipment', 'location'): ['WELL', 'RIG', 'REMOTE', 'Moon'],
    ('channel', 'units'): FREE_UNITS,
}
HARD_ENUMS = {('calibration_measurement', 'phase'), ('process', 'status'), ('zone', 'domain'),
              ('channel', 'properties'), ('computation', 'properties'), ('process', 'properties')}

NAME_CHARS_HC = string.ascii_uppercase + string.digits + '_-'
NAME_CHARS = string.ascii_letters + string.digits + '_-. #'


def name(r: random.Random, tag: str, n: int = None, hc: bool = False) -> str:
    """Unique-ish object name embedding a tag (normally the op index)."""
    chars = NAME_CHARS_HC if hc else NAME_CHARS
    base = f'{tag}'
    if n is None:
        n = r.choice([len(base), len(base) + 1, 6, 9, 17, 40])
    n = max(n, len(base))
    return base + ''.join(r.choice(chars if not hc else NAME_CHARS_HC) for _ in range(n - len(base)))


def base_spec(mx=8192, set_identifier='MAIN-STORAGE-UNIT', seq=1, lfs=None, **write) -> dict:
    return {'sul': {'set_identifier': set_identifier, 'sequence_number': seq, 'max_record_length': mx},
            'lfs': lfs or [{}], 'ops': [], 'write': dict(write)}


def fix_sul(spec):
    """spec['sul'] uses DLISFile kwargs; the oracle wants sequence_number/max_record_length/set_identifier."""
    return spec


def origin_op(nm='ORIGIN', lf=0, fsn=1, ctime=None, **attrs) -> dict:
    a = {'file_set_number': fsn, 'creation_time': ctime or {'$dt': [2020, 1, 2, 3, 4, 5, 0], 'tz': 0}}
    a.update(attrs)
    return {'op': 'origin', 'lf': lf, 'name': nm, 'attrs': a}


def channel_op(nm, dtype='<f8', shape=(4,), lf=0, fill=None, layout='C', **kw) -> dict:
    op = {'op': 'channel', 'lf': lf, 'name': nm, 'attrs': dict(kw.pop('attrs', {})),
          'data': {'dtype': dtype, 'shape': list(shape), 'layout': layout, 'fill': fill or {'kind': 'pos'}}}
    op.update(kw)
    return op


def frame_op(nm, chan_idx, lf=0, **attrs) -> dict:
    a = {'channels': {'$tuple': [{'$ref': i} for i in chan_idx]}}
    a.update(attrs)
    return {'op': 'frame', 'lf': lf, 'name': nm, 'attrs': a}


def nf_op(nm, lf=0, **attrs) -> dict:
    return {'op': 'no_format', 'lf': lf, 'name': nm, 'attrs': attrs}


def nf_data_op(target, payload: bytes, lf=0, as_='bytes') -> dict:
    if as_ == 'str':
        return {'op': 'nf_data', 'lf': lf, 'target': target, 'payload': payload.decode('ascii'), 'as': 'str'}
    return {'op': 'nf_data', 'lf': lf, 'target': target, 'payload': {'$bytes': payload.hex()}, 'as': as_}


def minimal(mx=8192, rows=3, dtype='<f8', width=None, lf_kwargs=None, **write) -> dict:
    """origin + one channel + one frame."""
    sp = base_spec(mx, lfs=[lf_kwargs or {}], **write)
    sp['ops'].append(origin_op())
    shape = (rows,) if width is None else (rows, width)
    sp['ops'].append(channel_op('CH1', dtype, shape, fill={'kind': 'pos', 'tag': 1}))
    sp['ops'].append(frame_op('FRAME1', [1]))
    return sp


def payload_bytes(r: random.Random, n: int, tag: int = 0, end: bytes = None) -> bytes:
    """position-coded payload over all 256 byte values."""
    b = bytes(((i * 7 + tag * 13 + 1) & 0xFF) for i in range(n))
    if end is not None and n >= len(end):
        b = b[:n - len(end)] + end
    return b


# ------------------------------------------------------------------------------------------------
# random metadata values by kind
# ------------------------------------------------------------------------------------------------

def ascii_text(r, n=None):
    if n is None:
        n = r.choice([0, 1, 2, 5, 11, 30, 127, 128, 200])
        if r.random() < 0.02:
            n = r.choice([16383, 16384, 16385, 20000])
    return ''.join(r.choice(string.ascii_letters + string.digits + ' _-.,/()') for _ in range(n))


#: texts that float() would accept although they are neither integer literals nor contain a dot: they are TEXT (the library
#: turns text into a number only where it reads as one: digits, or digits with a dot)
FLOATISH_TEXT = ['5E3', '1e5', '1E-3', 'NaN', 'nan', 'Inf', '-Infinity', '+inf', 'infinity', '2e0', '-1E9']


def nonnumeric_text(r, n=None):
    if r.random() < 0.12:
        return r.choice(FLOATISH_TEXT)
    s = ascii_text(r, n)
    return 'T' + s if s else 'T'


#: how a cast dtype is handed over: the numpy type class, a dtype instance, a dtype instance of explicit byte order
#: (np.dtype('>f4'), some_big_endian_array.dtype): the declared cast names a TYPE; the order in the file is big-endian anyway
CAST_FORMS = ('type', 'dtype', 'dtype>', 'dtype<', 'type', 'dtype>')


def cast_form(r):
    return r.choice(CAST_FORMS)


def gen_dt(r):
    us = r.choice([0, 0, 499, 500, 1000, 123456, 999499, 999500, 999999])   # (the last two: the millisecond field saturates at 999, the second is NOT wrapped)
    tz = r.choice([None, 0, 0, 60, -300, 330, 840, -720])
    y = r.choice([1900, 1901, 1970, 1999, 2000, 2024, 2100, 2155]) if tz in (None, 0) else r.choice([1950, 2000, 2024, 2100])
    c = r.random()
    if c < 0.08:
        # the second occurrence (fold=1) of a wall-clock time in a zone where times repeat
        return {'$dt': [r.choice([1950, 2000, 2024, 2100]), r.randint(1, 12), r.randint(1, 28), r.randint(1, 22), r.randint(0, 59), r.randint(0, 59), us],
                'tz': 'RH', 'fold': r.choice([1, 1, 0])}
    if c < 0.14:
        # a naive time inside the hour repeated when daylight saving time ends (in the zones the runner may pin: US Eastern
        # 2021-11-07 01:xx, New Zealand 2021-04-04 02:xx), second occurrence; an ordinary time under every other zone
        mo_, d_, h_ = r.choice([(11, 7, 1), (4, 4, 2)])
        return {'$dt': [2021, mo_, d_, h_, r.randint(0, 59), r.randint(0, 59), us], 'tz': None, 'fold': r.choice([1, 1, 0])}
    return {'$dt': [y, r.randint(1, 12), r.randint(1, 28), r.randint(0, 23), r.randint(0, 59), r.randint(0, 59), us],
            'tz': tz}


def gen_float(r):
    c = r.random()
    if c < 0.5:
        return round(r.uniform(-1e4, 1e4), r.choice([0, 1, 3, 6]))
    if c < 0.7:
        return r.choice([0.0, 1.0, -1.0, 0.5, 1e-300, 1e300, 1.7976931348623157e308, 5e-324, 3.141592653589793])
    return float(r.randint(-10**6, 10**6)) + r.choice([0.0, 0.25, 0.5])


def gen_int(r, lo=-2**31, hi=2**31 - 1):
    c = r.random()
    if c < 0.4:
        return r.randint(max(lo, -100), min(hi, 100))
    if c < 0.7:
        return r.choice([x for x in (lo, lo + 1, -1, 0, 1, 127, 128, 255, 256, 16383, 16384, 65535, hi - 1, hi)
                         if lo <= x <= hi])
    return r.randint(lo, hi)


def gen_num(r):
    return gen_int(r) if r.random() < 0.5 else gen_float(r)


# enum members (my own copy: class, member name -> value) used to pass *members* instead of strings
ENUM_MEMBERS = {
    ('frame', 'index_type'): ('FrameIndexType', {'BOREHOLE_DEPTH': 'BOREHOLE-DEPTH', 'VERTICAL_DEPTH': 'VERTICAL-DEPTH',
                                                 'NON_STANDARD': 'NON-STANDARD', 'ANGULAR_DRIFT': 'ANGULAR-DRIFT'}),
    ('equipment', 'eq_type'): ('EquipmentType', {'TOOL': 'Tool', 'SONDE': 'Sonde', 'CABLE': 'Cable', 'PAD': 'Pad'}),
    ('equipment', 'location'): ('EquipmentLocation', {'WELL': 'Well', 'RIG': 'Rig', 'REMOTE': 'Remote'}),
    ('zone', 'domain'): ('ZoneDomain', {'TIME': 'TIME', 'BOREHOLE_DEPTH': 'BOREHOLE-DEPTH', 'VERTICAL_DEPTH': 'VERTICAL-DEPTH'}),
    ('process', 'status'): ('ProcessStatus', {'COMPLETE': 'COMPLETE', 'ABORTED': 'ABORTED', 'IN_PROGRESS': 'IN-PROGRESS'}),
    ('calibration_measurement', 'phase'): ('CalibrationMeasurementPhase', {'AFTER': 'AFTER', 'BEFORE': 'BEFORE', 'MASTER': 'MASTER'}),
    ('channel', 'units'): ('Unit', UNIT_MEMBERS),
    ('channel', 'properties'): ('Property', {'AVERAGED': 'AVERAGED', 'CALIBRATED': 'CALIBRATED', 'CHANGED_INDEX': 'CHANGED-INDEX',
                                             'STD': 'STANDARD-DEVIATION', 'OVERSAMPLED': 'OVER-SAMPLED'}),
}
ENUM_MEMBERS[('computation', 'properties')] = ENUM_MEMBERS[('channel', 'properties')]
ENUM_MEMBERS[('process', 'properties')] = ENUM_MEMBERS[('channel', 'properties')]


def enum_member(r, key):
    cls, members = ENUM_MEMBERS[key]
    m = r.choice(sorted(members))
    return {'$enum': f'{cls}.{m}', 'value': members[m]}


def gen_scalar(r, op, kw, kind, ctx):
    """A valid scalar value spec for (op, kw) of the given kind.  ctx: refs available {type: [opidx]}."""
    if (op, kw) in ENUM_MEMBERS and r.random() < 0.35:
        return enum_member(r, (op, kw))
    if (op, kw) in SOFT_FREE and r.random() < 0.2:
        return r.choice(SOFT_FREE[(op, kw)])
    if (op, kw) in ENUM_IDENT:
        vals = ENUM_IDENT[(op, kw)]
        return r.choice(vals)
    if kind == 'text':
        return ascii_text(r)
    if kind == 'ident':
        return ascii_text(r, r.choice([1, 2, 8, 20, 60, 127]))
    if kind == 'uvari':
        return gen_int(r, 0, 2**30 - 1) if kw != 'file_set_number' else gen_int(r, 1, 2**30 - 1)
    if kind == 'unorm':
        return gen_int(r, 0, 65535)
    if kind == 'ushort':
        return r.choice([0, 1])
    if kind == 'fdoubl':
        return gen_float(r) if r.random() < 0.8 else gen_int(r, -1000, 1000)
    if kind == 'num':
        return gen_num(r)
    if kind == 'int':
        return gen_int(r)
    if kind in ('dtime', 'dtf') and r.random() < 0.15:
        # one of the two documented string formats (naive: local time of the process)
        return r.choice(['%04d/%02d/%02d %02d:%02d:%02d', '%04d.%02d.%02d %02d:%02d:%02d']) % (
            r.choice([1950, 2003, 2050, 2100]), r.randint(1, 12), r.randint(1, 28), r.randint(0, 23), r.randint(0, 59), r.randint(0, 59))
    if kind == 'dtime':
        return gen_dt(r)
    if kind == 'dtf':
        return gen_dt(r) if r.random() < 0.5 else gen_float(r)
    if kind == 'status':
        return r.choice([0, 1, True, False])
    if kind == 'mnum':
        c = r.random()
        return nonnumeric_text(r, r.choice([1, 5, 20])) if c < 0.4 else gen_num(r)
    if kind == 'dim':
        return r.randint(1, 9)
    if kind == 'lname':
        if ctx.get('long_name') and r.random() < 0.5:
            return {'$ref': r.choice(ctx['long_name'])}
        return ascii_text(r, r.choice([0, 1, 7, 40]))      # (an empty text is a text)
    if kind.startswith('ref:'):
        t = kind[4:]
        pool = ctx.get(t, []) if t != '*' else [i for v in ctx.values() for i in v]
        return {'$ref': r.choice(pool)} if pool else None
    if kind == 'objref':
        pool = [i for t, v in ctx.items() for i in v]
        return {'$ref': r.choice(pool)} if pool else None
    raise ValueError(kind)


def homogeneous(r, op, kw, kind, ctx, n):
    """n values of one python type (lists of mixed str/number are not representable in one code)."""
    first = gen_scalar(r, op, kw, kind, ctx)
    if first is None:
        return None
    out = [first]
    guard = 0
    while len(out) < n and guard < 50 * n:
        guard += 1
        x = gen_scalar(r, op, kw, kind, ctx)
        if x is None:
            continue
        if isinstance(first, dict) != isinstance(x, dict) or \
                (isinstance(first, dict) and set(first) != set(x)):
            continue
        if not isinstance(first, dict):
            if isinstance(first, str) != isinstance(x, str):
                continue
            if kind in ('mnum', 'num', 'dtf') and isinstance(first, bool) != isinstance(x, bool):
                continue
        if kind in ('dtime', 'dtf') and isinstance(first, dict) and (first.get('tz') is None) != (x.get('tz') is None):
            continue
        out.append(x)
    return out


def gen_attr(r, op, kw, kind, multi, ctx, units_p=0.3, route=None, count=None):
    """A valid attribute value spec incl. assignment route and (where settable) units."""
    if multi:
        if count is None:
            count = r.choice([1, 1, 2, 3, 5])
        vals = homogeneous(r, op, kw, kind, ctx, count)
        if vals is None:
            return None
        v = vals if (len(vals) > 1 or r.random() < 0.5) else vals[0]
        if isinstance(v, list) and r.random() < 0.3:
            v = {'$tuple': v}
    else:
        v = gen_scalar(r, op, kw, kind, ctx)
        if v is None:
            return None
    units = None
    if kind in schema.UNITS_KINDS and r.random() < units_p:
        units = r.choice(UNIT_STRINGS) if r.random() < 0.8 else r.choice(FREE_UNITS)
        if r.random() < 0.35:
            units = enum_member(r, ('channel', 'units'))      # a dliswriter.enums.Unit member instead of its string
    if route is None:
        route = r.choice(['kw', 'kw', 'dict', 'AttrSetup']) if units is None else r.choice(['dict', 'AttrSetup'])
    if route == 'kw' and units is None:
        return v
    d = {'value': v}
    if units is not None:
        d['units'] = units
    return {'$setup': d, 'route': 'AttrSetup' if route == 'AttrSetup' else 'dict'}


# ------------------------------------------------------------------------------------------------
# frames
# ------------------------------------------------------------------------------------------------

def chunk_choices(n):
    s = {1, 2, n, n + 1, 10 * n, None}
    for d in range(2, n):
        if n % d == 0:
            s.add(d)
            break
    if n > 3:
        s.add(n - 1)
        s.add(3 if n % 3 else 4)
    return sorted(s, key=lambda x: (x is None, x))


def frame_spec(r: random.Random, mx=None, rows=None, nch=None, sources=('inline', 'dict', 'struct', 'hdf5'),
               casts=False, fills=('pos', 'rand', 'special'), layouts=LAYOUTS, orders='<>=', index=False,
               window=False, nframes=1, dtypes=DTYPES, max_width=None, mixed_inline=False, dataset_names=True) -> dict:
    """Random valid spec: origin + nframes frames with their own channels and data."""
    mx = mx or r.choice([64, 128, 512, 8192, 8192, 16384])
    cap = mx - 8
    sp = base_spec(mx)
    sp['ops'].append(origin_op())
    n = rows or r.choice([1, 2, 3, 5, 7, 16, 64])
    source = r.choice(list(sources))
    tag = 0
    for f in range(nframes):
        k = nch or r.choice([1, 1, 2, 3, 4, 6])
        idxs = []
        for c in range(k):
            tag += 1
            dt = r.choice(list(dtypes))
            order = r.choice(orders)
            wsel = r.random()
            if index and c == 0:
                shape = (n,)
            elif wsel < 0.45:
                shape = (n,)
            elif wsel < 0.6:
                shape = (n, 1)
            elif wsel < 0.9:
                shape = (n, r.choice([2, 3, 5, 8]))
            else:
                shape = (n, min(max_width or 10 ** 9, r.choice([cap // 2 + 1, cap + 3, 2 * cap + 1, 40])))
            layout = r.choice(list(layouts))
            if source == 'hdf5' and layout == 'readonly':
                layout = 'C'
            fill = {'kind': r.choice(list(fills)), 'tag': tag, 'seed': r.randrange(1 << 30)}
            kw = {}
            if casts and r.random() < 0.4:
                kw['cast_dtype'] = {'$dtype': r.choice(DTYPES), 'as': cast_form(r)}
                fill = {'kind': 'safe', 'tag': tag}
            if dataset_names and r.random() < 0.3:
                kw['dataset_name'] = ('/' if (source == 'hdf5' and r.random() < 0.3) else '') + f'ds_{f}_{c}'
            nm = f'CH{f}_{c}'
            sp['ops'].append(channel_op(nm, dtstr(dt, order), shape, fill=fill, layout=layout, **kw))
            idxs.append(len(sp['ops']) - 1)
        fattrs = {}
        if index:
            fattrs['index_type'] = r.choice(INDEX_TYPES)
        sp['ops'].append(frame_op(f'FRAME{f}', idxs, **fattrs))
    w = {'source': source, 'input_chunk_size': r.choice(chunk_choices(n)),
         'output_chunk_size': r.choice([mx, 2 * mx, 2 ** 16])}
    if source == 'dict' and mixed_inline:
        # some channels carry inline data, the rest comes through the dict passed to write()
        chan_ops = [o for o in sp['ops'] if o['op'] == 'channel']
        for o in chan_ops[1:]:
            if r.random() < 0.4:
                o['force_inline'] = True
    if source == 'struct':
        w['struct_variant'] = r.choice([None, None, 'aligned', 'view'])
    if source != 'inline':
        w['perm_seed'] = r.choice([None, r.randrange(1000)])
        w['extra'] = r.choice([0, 0, 1, 3])
    if window and n > 1:
        a = r.randrange(0, n)
        b = r.randrange(a + 1, n + 1)
        w['from_idx'] = a
        w['to_idx'] = r.choice([b, b, None]) if True else b
    sp['write'] = w
    if r.random() < 0.25:
        sp['caller_reuses_lists'] = r.choice([True, 'keeps-last'])     # (spec.run_op: one caller-owned list per keyword, refilled for every call)
    return sp


def int_cast_spec(r: random.Random, **kw) -> dict:
    """Frames of integer channels declared with ANOTHER integer cast dtype, holding values outside the target's range:
    the cast is numpy's (modular) conversion whatever the kind of data source."""
    ints = ('int8', 'int16', 'int32', 'uint8', 'uint16', 'uint32')
    sp = frame_spec(r, casts=False, dtypes=ints, fills=('rand', 'special'), **kw)
    for o in sp['ops']:
        if o['op'] == 'channel' and r.random() < 0.7:
            cur = o['data']['dtype'][1:]
            o['cast_dtype'] = {'$dtype': r.choice([d for d in ints if np.dtype(d).str[1:] != cur]), 'as': cast_form(r)}
    return sp


def float_cast_spec(r: random.Random, sources=('inline', 'dict', 'struct', 'hdf5')):
    """One frame with a float channel X declared with a cast to a narrower type; 0-2 of its values are out of range for
    SOME of the targets (fill kind 'oor').  Returns (spec, op index of X, source dtype, target dtype name, number of such values)."""
    import numpy as np
    n = r.choice([1, 2, 3, 4, 5, 8, 9, 16, 17, 40])
    src = r.choice(['<f8', '<f8', '>f8', '<f4', '>f4'])
    dst = r.choice(['uint8', 'int8', 'uint16', 'int16', 'uint32', 'uint32', 'int32'] + (['float32'] if src[1:] == 'f8' else []))
    shape = (n,) if r.random() < 0.8 else (n, r.choice([2, 3]))
    nbad = r.choice([0, 1, 1, 1, 2])
    size = int(np.prod(shape))
    bad_at = [[r.randrange(size), r.randrange(1000)] for _ in range(nbad)]
    sp = base_spec(r.choice([128, 8192]))
    sp['ops'].append(origin_op())
    single = len(shape) == 1 and r.random() < 0.3    # (a frame of ONE channel is cast into a contiguous destination)
    ops = sp['ops']
    if not single:
        ops.append(channel_op('IDX', '<f8', (n,), fill={'kind': 'pos', 'tag': 1}))
    ops.append(channel_op('X', src, shape, fill={'kind': 'oor', 'bad_at': bad_at},
                              layout=r.choice(['C', 'C', 'strided', 'view', 'F' if len(shape) > 1 else 'C']),
                              cast_dtype={'$dtype': dst, 'as': cast_form(r)}))
    xi = len(ops) - 1
    if not single:
        for j in range(r.choice([0, 0, 1, 2])):
            ops.append(channel_op(f'O{j}', '<f4', (n,), fill={'kind': 'pos', 'tag': 3 + j}))
    chans = [i for i, o in enumerate(ops) if o['op'] == 'channel']
    if len(shape) == 1 and r.random() < 0.4:
        chans.remove(xi)
        chans.insert(0, xi)
    ops.append(frame_op('FR', chans))
    source = r.choice(list(sources))
    sp['write'] = {'source': source, 'input_chunk_size': r.choice(chunk_choices(n)), 'output_chunk_size': 2 ** 16}
    if source == 'struct':
        sp['write']['struct_variant'] = r.choice([None, None, 'aligned', 'view'])
        sp['write']['extra'] = r.choice([0, 0, 1])
    if n > 2 and r.random() < 0.4:
        a0 = r.randrange(0, n - 1)
        sp['write'].update({'from_idx': a0, 'to_idx': r.choice([None, r.randrange(a0 + 1, n + 1)])})
    return sp, xi, src, dst, nbad


def float_cast_boundaries():
    """Every (source float dtype, target integer dtype, value, lies outside the target's range?) at the very edge of the
    target's range, for values the SOURCE type holds exactly: max + 1 (a power of two), the largest source float below
    it, min, the source float just below min (only outside the range when its truncation is), -1.0 / -0.5 for unsigned
    targets, and the target's max itself converted to the source type (float32(2**31 - 1) IS 2**31)."""
    import numpy as np
    out = []
    for src in ('<f8', '>f8', '<f4', '>f4'):
        st = np.dtype(src).newbyteorder('=').type
        for dst in ('uint8', 'int8', 'uint16', 'int16', 'uint32', 'int32'):
            info = np.iinfo(dst)
            hi, lo = st(float(info.max) + 1.0), st(float(info.min))
            cand = [hi, np.nextafter(hi, st(0)), st(info.max), lo, np.nextafter(lo, st(-np.inf)), st(float(info.min) - 1.0),
                    st(-0.5), np.nextafter(hi, st(np.inf))]
            seen = set()
            for v in cand:
                f = float(v)
                if f in seen:
                    continue
                seen.add(f)
                t = float(np.trunc(np.float64(f)))
                out.append((src, dst, f, not (float(info.min) <= t < float(info.max) + 1.0)))
    return out


def float_cast_boundary_spec(k: int, sources=('inline', 'dict', 'struct', 'hdf5')):
    """The k-th boundary case of float_cast_boundaries() as a one-frame specification (same return value as float_cast_spec)."""
    combos = float_cast_boundaries()
    src, dst, v, bad = combos[k % len(combos)]
    q = k // len(combos)
    n = (3, 1, 8, 17)[q % 4]
    pos = (k * 7 + q) % n
    sp = base_spec(128)
    sp['ops'].append(origin_op())
    ops = sp['ops']
    single = (k + q) % 5 == 0
    if not single:
        ops.append(channel_op('IDX', '<f8', (n,), fill={'kind': 'pos', 'tag': 1}))
    ops.append(channel_op('X', src, (n,), fill={'kind': 'oor', 'bad_at': [], 'bad_values': [[pos, v]]},
                          layout=('C', 'strided', 'view')[(k + q) % 3], cast_dtype={'$dtype': dst, 'as': CAST_FORMS[k % len(CAST_FORMS)]}))
    xi = len(ops) - 1
    ops.append(frame_op('FR', [i for i, o in enumerate(ops) if o['op'] == 'channel']))
    sp['write'] = {'source': sources[(k + q) % len(sources)], 'input_chunk_size': (None, 1, 2)[(k // 2 + q) % 3] if n > 1 else None,
                   'output_chunk_size': 2 ** 16}
    return sp, xi, src, dst, int(bad)


def frame_signature(sp) -> str:
    chans = [o for o in sp['ops'] if o['op'] == 'channel']
    w = sp.get('write', {})
    n = chans[0]['data']['shape'][0] if chans else 0
    ics = w.get('input_chunk_size')
    rel = 'none' if ics is None else ('1' if ics == 1 else 'div' if n % ics == 0 and ics < n else 'eq' if ics == n
                                      else 'gt' if ics > n else 'nondiv')
    parts = sorted({(c['data']['dtype'], c['data'].get('layout', 'C'), len(c['data']['shape']),
                     c['data'].get('fill', {}).get('kind'), bool(c.get('cast_dtype'))) for c in chans})
    return f"{parts}|{w.get('source', 'inline')}{w.get('struct_variant') or ''}|{rel}|{n}|{w.get('from_idx')}:{w.get('to_idx')}"


def frame_nontrivial(sp) -> bool:
    chans = [o for o in sp['ops'] if o['op'] == 'channel']
    w = sp.get('write', {})
    n = chans[0]['data']['shape'][0] if chans else 0
    ics = w.get('input_chunk_size')
    return any(c['data']['dtype'][0] == '>' or c['data'].get('layout', 'C') != 'C' or len(c['data']['shape']) > 1
               or c['data'].get('fill', {}).get('kind') in ('rand', 'special') for c in chans) \
        or (ics is not None and ics < n)


def fastpath_spec(r: random.Random, **kw) -> dict:
    """Structured-array source whose fields are exactly the frame's channels with native dtypes and no cast: the place
    where a zero-copy path through the source array can live.  Field order, padding (aligned) and multi-field views vary."""
    sp = frame_spec(r, casts=False, orders='<=', layouts=('C',), sources=('struct',), nframes=1, dataset_names=False,
                    nch=r.choice([2, 3, 4]), **kw)
    sp['write']['extra'] = 0
    sp['write']['perm_seed'] = r.choice([None, r.randrange(1000), r.randrange(1000)])
    sp['write']['struct_variant'] = r.choice([None, 'aligned', 'view'])
    return sp
