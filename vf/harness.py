"""In-worker execution harness: taps, log capture, scratch directory, one-spec execution."""
from __future__ import annotations
import contextlib
import io
import logging
import os
import shutil
import sys
import tempfile

_SCRATCH = None


def scratch_dir() -> str:
    global _SCRATCH
    if _SCRATCH is None:
        base = os.environ.get('VF_SCRATCH_BASE') or tempfile.gettempdir()
        _SCRATCH = tempfile.mkdtemp(prefix='vf-', dir=base)
    return _SCRATCH


def cleanup() -> None:
    global _SCRATCH
    if _SCRATCH and os.path.isdir(_SCRATCH):
        shutil.rmtree(_SCRATCH, ignore_errors=True)
    _SCRATCH = None


def quiet() -> None:
    """Silence the progress bar and the library's logging to the console."""
    import progressbar  # noqa
    logging.getLogger('dliswriter').setLevel(logging.DEBUG)
    logging.getLogger('dliswriter').propagate = False
    if not any(isinstance(h, logging.NullHandler) for h in logging.getLogger('dliswriter').handlers):
        logging.getLogger('dliswriter').addHandler(logging.NullHandler())
    logging.getLogger('progressbar').setLevel(logging.CRITICAL)
    try:
        import dliswriter.file.writer as w
        if getattr(w.progressbar, '_vf_silent', False):
            return
        real = w.progressbar
        null = open(os.devnull, 'w')

        def _silent(it, **kwargs):
            # the REAL progress bar, drawing to /dev/null: it is part of the write loop (it raises when it is shown more
            # records than it was told to expect), so replacing it would hide real behaviour.  Also counts what passes.
            declared = kwargs.get('max_value')
            n = 0
            for x in real(it, fd=null, **kwargs):
                n += 1
                yield x
            if declared is not None and n != declared:
                DECLARED_MISMATCH.append((declared, n))
        _silent._vf_silent = True
        w.progressbar = _silent
    except Exception:
        pass


DECLARED_MISMATCH = []      # (declared number of logical records, number actually passed through the write loop)


class LogCapture(logging.Handler):
    def __init__(self, level=logging.WARNING):
        super().__init__(level)
        self.records = []

    def emit(self, record):
        try:
            self.records.append((record.levelname, record.name, record.getMessage()))
        except Exception:
            self.records.append((record.levelname, record.name, '<unformattable>'))


@contextlib.contextmanager
def capture_logs(level=logging.WARNING):
    h = LogCapture(level)
    lg = logging.getLogger('dliswriter')
    lg.addHandler(h)
    try:
        yield h.records
    finally:
        lg.removeHandler(h)


class Taps:
    """Collect lr-tap and flush-tap events of the guarded hooks in the repository."""

    def __init__(self, on_flush=None):
        self.lr = []
        self.flush = []
        self.on_flush = on_flush

    def _lr(self, is_eflr, tstruct, body, cap):
        self.lr.append((bool(is_eflr), bytes(tstruct), bytes(body), cap))

    def _flush(self, filename, total):
        self.flush.append((str(filename), total))
        if self.on_flush:
            self.on_flush(str(filename), total, len(self.flush))

    def __enter__(self):
        from dliswriter.utils.internal import verif_taps
        if not verif_taps.ENABLED:
            raise RuntimeError('taps disabled: WELL_ID_DLISWRITER_VERIF != 1')
        verif_taps.lr_sinks.append(self._lr)
        verif_taps.flush_sinks.append(self._flush)
        return self

    def __exit__(self, *a):
        from dliswriter.utils.internal import verif_taps
        verif_taps.lr_sinks.remove(self._lr)
        verif_taps.flush_sinks.remove(self._flush)
        return False


_counter = [0]


def fresh_path(ext='.dlis') -> str:
    _counter[0] += 1
    return os.path.join(scratch_dir(), f'f{_counter[0]}{ext}')


_prior_counter = [0]


def leave_prior_file(path: str):
    """Every third monitored write finds its target path OCCUPIED: by junk longer than most outputs, by an earlier DLIS file
    with larger visible records, or by a short file.  A write replaces what was there (C01: "... and nothing else")."""
    _prior_counter[0] += 1
    k = _prior_counter[0]
    if k % 3:
        return None
    kind = ('junk-longer', 'earlier-dlis-larger-records', 'short')[(k // 3) % 3]
    if kind == 'junk-longer':
        blob = bytes((i * 37 + 11) % 251 for i in range(70000))
    elif kind == 'earlier-dlis-larger-records':
        sul = b'   1V1.00RECORD16384' + b'EARLIER-FILE'.ljust(60)
        vr = (16384).to_bytes(2, 'big') + b'\xff\x01' + (16380).to_bytes(2, 'big') + b'\x00\x01' + bytes(16376)
        blob = sul + vr * 6
    else:
        blob = b'x' * 40
    with open(path, 'wb') as f:
        f.write(blob)
    return kind


def execute(spec: dict, keep_file=False, on_flush=None, want_taps=True, **write_override):
    """Build + write one spec with taps and log capture; return an oracle.Run (not analysed)."""
    from . import spec as S, oracle
    path = fresh_path()
    with capture_logs() as logs:
        b = S.build(spec)
        if b.error is not None:
            return oracle.Run(spec, b, b.error, None, None, None, list(logs))
        taps = Taps(on_flush)
        del DECLARED_MISMATCH[:]
        prior_kind = leave_prior_file(path)
        with taps:
            wout = S.do_write(spec, b, path, scratch_dir(), **write_override)
    data = None
    if wout[0] == 'ok':
        with open(path, 'rb') as f:
            data = f.read()
    run = oracle.Run(spec, b, wout, data, taps.lr if want_taps else None, taps.flush, list(logs))
    run.path = path
    run.prior_kind = prior_kind
    run.declared_mismatch = list(DECLARED_MISMATCH)     # [(declared, passed)] when the write loop saw another number of records
    if not keep_file:
        with contextlib.suppress(OSError):
            os.remove(path)
    return run


class _FakeRecord:
    """A logical record with a prescribed body, fed to the REAL DLISWriter / LogicalRecordBytes."""

    def __init__(self, is_eflr, typ, body):
        self.is_eflr, self.typ, self.body = is_eflr, typ, body

    def represent_as_bytes(self):
        from dliswriter.logical_record.core.logical_record.logical_record_bytes import LogicalRecordBytes
        return LogicalRecordBytes(self.body, lr_type_struct=bytes([self.typ]), is_eflr=self.is_eflr)


def write_records(mx, records, output_chunk_size=2 ** 16, set_identifier='MAIN-STORAGE-UNIT', seq=1,
                  on_flush=None, path=None, keep_file=False):
    """Writer-level execution: the real StorageUnitLabel + DLISWriter + BufferedOutput + ByteWriter +
    LogicalRecordBytes on a prescribed sequence of record bodies.  Returns an oracle.Run."""
    from . import oracle
    from dliswriter.file.writer import DLISWriter
    from dliswriter.logical_record.misc import StorageUnitLabel
    path = path or fresh_path()
    spec = {'sul': {'set_identifier': set_identifier, 'sequence_number': seq, 'max_record_length': mx}}
    prior_kind = leave_prior_file(path)
    taps = Taps(on_flush)
    wout = ('ok',)
    with capture_logs() as logs:
        with taps:
            try:
                sul = StorageUnitLabel(set_identifier, seq, mx)
                w = DLISWriter(path, visible_record_length=mx)
                w.write_storage_unit_label(sul)
                w.write_logical_records([_FakeRecord(*r) for r in records], output_chunk_size=output_chunk_size)
            except Exception as e:  # noqa
                wout = ('exc', type(e).__name__, str(e)[:300])
    data = None
    if wout[0] == 'ok':
        with open(path, 'rb') as f:
            data = f.read()
    run = oracle.Run(spec, None, wout, data, taps.lr, taps.flush, list(logs))
    run.path = path
    run.prior_kind = prior_kind
    if not keep_file:
        with contextlib.suppress(OSError):
            os.remove(path)
    return run


def rewrite(run, later_ops=(), keep_file=False, want_taps=True, data='__auto__', **write_override):
    """Second (third ...) write of the SAME DLISFile after applying `later_ops` (assign / setattr / new objects) through
    the public API.  Returns a new oracle.Run whose spec is the specification in its current state (base ops + later
    ops, in order), so every oracle judges the new file against what is specified NOW."""
    import copy
    from . import spec as S, oracle
    sp = copy.deepcopy(run.spec)
    b = run.built
    source = sp.get('write', {}).get('source', 'inline')
    with capture_logs() as logs:
        for op in later_ops:
            i = len(sp['ops'])
            sp['ops'].append(copy.deepcopy(op))
            try:
                S.run_op(b, i, op, source)
                b.outcomes.append(('ok',))
            except S.HarnessError:
                raise
            except Exception as e:  # noqa
                b.outcomes.append(('exc', type(e).__name__, str(e)[:300]))
        sp['write'] = dict(sp.get('write', {}))
        sp['write'].update(write_override)
        path = fresh_path()
        taps = Taps()
        with taps:
            wout = S.do_write(sp, b, path, scratch_dir(), data=data)
    fdata = None
    if wout[0] == 'ok':
        with open(path, 'rb') as f:
            fdata = f.read()
    new = oracle.Run(sp, b, wout, fdata, taps.lr if want_taps else None, taps.flush, list(logs))
    new.path = path
    if not keep_file:
        with contextlib.suppress(OSError):
            os.remove(path)
    return new
