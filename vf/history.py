"""History engine for C14 / C20: execute a history in this process, and its final specification in a fresh one."""
from __future__ import annotations
import copy
import json
import os
import subprocess
import sys

from . import spec as S, harness


def run_fresh(spec: dict, timeout=120):
    """Build + write `spec` once in a fresh interpreter.  Returns (write outcome, bytes|None, outcomes)."""
    d = harness.scratch_dir()
    harness._counter[0] += 1
    base = os.path.join(d, f'fresh{harness._counter[0]}')
    sp, out, res = base + '.json', base + '.dlis', base + '.res'
    json.dump(spec, open(sp, 'w'))
    env = dict(os.environ)
    r = subprocess.run([sys.executable, '-m', 'vf.fresh', sp, out, res], env=env, timeout=timeout,
                       stdout=subprocess.DEVNULL, stderr=subprocess.PIPE)
    if r.returncode != 0 or not os.path.exists(res):
        raise RuntimeError('fresh process failed: ' + r.stderr.decode()[-800:])
    info = json.load(open(res))
    data = None
    if os.path.exists(out):
        with open(out, 'rb') as f:
            data = f.read()
    for p in (sp, out, res):
        if os.path.exists(p):
            os.remove(p)
    if info.get('build_error'):
        return tuple(info['build_error']), None, []
    w = tuple(info['write'])
    return w, (data if w[0] == 'ok' else None), [tuple(o) for o in info['outcomes']]


def final_spec(hist: dict) -> dict:
    """The specification in its final state: base ops + every later op, final write options / arrays."""
    sp = copy.deepcopy(hist['base'])
    for ph in hist['phases']:
        sp['ops'].extend(copy.deepcopy(ph.get('ops', [])))
    # the specification proper: a call that was (meant to be) rejected is not part of it, and an object renamed after
    # creation simply HAS its new name -- ops flagged 'fold' are folded away (their slots stay, so indices keep their meaning)
    for i, op in enumerate(sp['ops']):
        if not op.get('fold'):
            continue
        if op['op'] == 'setattr' and op['field'] == 'name':
            sp['ops'][op['target']]['name'] = op['value']
        sp['ops'][i] = {'op': 'noop', 'lf': op.get('lf', 0)}
    last = hist['phases'][-1]
    sp['write'] = copy.deepcopy(last.get('write', {}))
    for k in ('source', 'perm_seed', 'extra', 'struct_variant'):
        if k in hist['base'].get('write', {}):
            sp['write'][k] = hist['base']['write'][k]
    for i, a in (last.get('arrays') or {}).items():
        sp['ops'][int(i)]['data'] = copy.deepcopy(a)
    return sp


def run_history(hist: dict):
    """Execute the history in this process.  Returns (final write outcome, final bytes|None, per-op outcomes, log)."""
    log = []
    for f in hist.get('foreign_before', []):
        fr = harness.execute(f, want_taps=False)
        log.append(('foreign', fr.wout[0]))
    base = copy.deepcopy(hist['base'])
    b = S.build(base)
    if b.error is not None:
        return b.error, None, [], log
    ops = list(base['ops'])
    path = harness.fresh_path()
    wout, data = None, None
    source = base.get('write', {}).get('source', 'inline')
    shared = None
    if hist.get('shared_data') and source != 'inline':
        # ONE data object (dict / structured array / HDF5 path) made once and handed to every write of the history
        shared = S.make_write_data(base, b, harness.scratch_dir())
    for pi, ph in enumerate(hist['phases']):
        for op in ph.get('ops', []):
            i = len(ops)
            ops.append(op)
            try:
                S.run_op(b, i, op, source)
                b.outcomes.append(('ok',))
            except S.HarnessError:
                raise
            except Exception as e:   # noqa
                b.outcomes.append(('exc', type(e).__name__, str(e)[:300]))
        for f in ph.get('foreign', []):
            fr = harness.execute(f, want_taps=False)
            log.append(('foreign', fr.wout[0]))
        spw = {'sul': base.get('sul', {}), 'lfs': base.get('lfs', [{}]), 'ops': ops, 'write': ph.get('write', {})}
        data_arg = '__auto__' if shared is None else shared
        spw['write'] = dict(spw['write'], source=source, **{k: v for k, v in base.get('write', {}).items()
                                                             if k in ('perm_seed', 'extra', 'struct_variant', 'h5name')})
        if ph.get('arrays'):
            # this write gets its own data through the dict passed to write()
            import numpy as np
            dd = {}
            for i, a in ph['arrays'].items():
                op = ops[int(i)]
                dd[op.get('dataset_name') or op['name']] = S.make_array(a)
            data_arg = dd
            if hist.get('arrays_via') == 'hdf5-replaced':
                # ... or through the HDF5 file at the SAME path as before, replaced on disk by a file with the new data
                import h5py
                for i, arr in b.arrays.items():
                    op = ops[int(i)]
                    dd.setdefault(op.get('dataset_name') or op['name'], arr)
                h5path = os.path.join(harness.scratch_dir(), base['write'].get('h5name', 'data.h5'))
                with h5py.File(h5path + '.new', 'w') as f:
                    for key, arr in dd.items():
                        f.create_dataset(key.lstrip('/'), data=np.ascontiguousarray(arr), dtype=arr.dtype)
                os.replace(h5path + '.new', h5path)
                data_arg = h5path
        hc = ph.get('hc', False)
        if hc:
            from dliswriter import high_compatibility_mode
            try:
                with high_compatibility_mode():
                    wout = S.do_write(spw, b, path, harness.scratch_dir(), data=data_arg)
            except Exception as e:   # noqa
                wout = ('exc', type(e).__name__, str(e)[:300])
        else:
            wout = S.do_write(spw, b, path, harness.scratch_dir(), data=data_arg)
        log.append(('write', pi, wout[0]) + tuple(wout[1:2]))
    if wout[0] == 'ok':
        with open(path, 'rb') as f:
            data = f.read()
    if os.path.exists(path):
        os.remove(path)
    return wout, data, list(b.outcomes), log
