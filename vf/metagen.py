"""Random *valid* metadata specifications over all 21 user-creatable object types (C04, C05, C07, C09 ...).

The generator knows the documented cross-attribute constraints (equal counts, zone domain vs. value type,
values/zones counts ...) from the docstrings of LogicalFile.add_* and keeps the specification inside them,
so that a rejection is not the expected outcome.
"""
from __future__ import annotations
import random

from . import gen, schema

ALL_TYPES = [t for t in schema.TYPES if t not in ('origin', 'channel', 'frame')]


def default_avoid() -> dict:
    """Input classes excluded from the main strata because an OPEN known finding covers them
    (DESIGN.md section 4).  Empty when every recorded defect is fixed."""
    import json
    import os
    p = os.path.join(os.path.dirname(os.path.dirname(os.path.abspath(__file__))), 'known_findings.json')
    av = {}
    try:
        for k in json.load(open(p)).get('findings', []):
            if k.get('status') == 'open' and k.get('avoid'):
                av[k['avoid']] = True
    except (OSError, ValueError):
        pass
    return av


class Ctx:
    def __init__(self, r, sp, lf=0, avoid=None, hc=False, prefix=''):
        self.r, self.sp, self.lf = r, sp, lf
        self.by_type = {}       # type -> [op index]
        self.avoid = avoid or {}
        self.hc = hc
        self.prefix = prefix
        self.names_used = {}

    def add(self, op):
        op['lf'] = self.lf
        self.sp['ops'].append(op)
        i = len(self.sp['ops']) - 1
        self.by_type.setdefault(op['op'], []).append(i)
        return i

    def refs(self):
        return {t: list(v) for t, v in self.by_type.items() if t in schema.TYPES}


def obj_name(c: Ctx, t: str, repeat_p=0.15, forbid=()):
    r = c.r
    used = c.names_used.setdefault(t, [])
    if used and r.random() < repeat_p:
        nm = r.choice(used)
        if nm not in forbid:
            return nm
    tag = f'{c.prefix}{t[:3].upper()}{len(c.sp["ops"])}'
    n = r.choice([None, None, len(tag) + 1, 20, 60, 127])
    if not c.avoid.get('ident_ge_128') and r.random() < 0.08:
        n = r.choice([128, 129, 200, 255])
    nm = gen.name(r, tag, n, hc=c.hc)
    used.append(nm)
    return nm


def maybe(r, p):
    return r.random() < p


def pick_attrs(c: Ctx, t: str, p=0.5, only=None, exclude=()):
    """Random subset of the attributes of type t with valid independent values."""
    r = c.r
    out = {}
    for kw, lab, kind, multi in schema.TYPES[t]['attrs']:
        if kw in exclude or (only is not None and kw not in only):
            continue
        if not maybe(r, p):
            continue
        count = None
        if multi:
            count = r.choice([1, 1, 2, 3, 5])
            if maybe(r, 0.04):
                count = r.choice([127, 128, 130, 200])
        v = gen.gen_attr(r, t, kw, kind, multi, c.refs(), count=count)
        if v is None:
            continue
        if c.avoid.get('ident_ge_128') and kind == 'ident':
            pass    # gen_scalar never produces idents longer than 127
        out[kw] = v
    return out


def same_count(c: Ctx, t, attrs, kws, kind='num', nested_p=0.0):
    """Give the listed multivalued numeric attributes the same number of values."""
    r = c.r
    present = [k for k in kws if k in attrs]
    if not present:
        return
    n = r.choice([1, 2, 3, 4])
    for k in present:
        vals = [gen.gen_float(r) if r.random() < 0.7 else float(gen.gen_int(r, -1000, 1000)) for _ in range(n)]
        attrs[k] = _wrap_like(attrs[k], vals)


def _wrap_like(old, vals):
    if isinstance(old, dict) and '$setup' in old:
        d = dict(old['$setup'])
        d['value'] = vals
        return {'$setup': d, 'route': old.get('route', 'dict')}
    return vals


def as_list(v):
    if isinstance(v, dict) and '$tuple' in v:
        return list(v['$tuple'])
    if isinstance(v, list):
        return v
    return [v]


def _value_of(v):
    if isinstance(v, dict) and '$setup' in v:
        return v['$setup'].get('value')
    return v


def make_object(c: Ctx, t: str, p=0.5):
    """Append one valid object of type t (not origin/channel/frame) and return its op index."""
    r = c.r
    attrs = pick_attrs(c, t, p)
    if t == 'calibration_coefficient':
        same_count(c, t, attrs, ['coefficients', 'references', 'plus_tolerances', 'minus_tolerances'])
    elif t == 'calibration_measurement':
        ctrl = ['maximum_deviation', 'standard_deviation', 'standard', 'plus_tolerance', 'minus_tolerance']
        attrs.pop('dimension', None)
        attrs.pop('axis', None)
        same_count(c, t, attrs, ctrl)
        if any(k in attrs for k in ctrl) and maybe(r, 0.3):
            # multidimensional samples with one common shape
            dims = r.choice([[2], [2, 3], [2, 2, 2]])
            n = len(as_list(_value_of(attrs[[k for k in ctrl if k in attrs][0]])))
            for k in ctrl:
                if k in attrs:
                    cnt = [0]

                    def cube(d):
                        if not d:
                            cnt[0] += 1
                            return float(cnt[0]) * 1.25
                        return [cube(d[1:]) for _ in range(d[0])]
                    attrs[k] = _wrap_like(attrs[k], [cube(dims) for _ in range(n)])
        if any(k in attrs for k in ctrl) and c.avoid.get('cm_dimension_empty'):
            for k in ctrl:
                attrs.pop(k, None)
        for k in ('measurement', 'reference'):
            if k in attrs:
                v = as_list(_value_of(attrs[k]))
                attrs[k] = _wrap_like(attrs[k], [float(x) if not isinstance(x, float) else x for x in v if not isinstance(x, bool)] or [1.5])
    elif t in ('computation', 'parameter'):
        attrs.pop('axis', None)
        attrs.pop('dimension', None)
        zones = attrs.get('zones')
        vals = attrs.get('values')
        nz = None
        if zones is not None:
            nz = len(as_list(_value_of(zones)))
        if vals is not None:
            n = nz if nz is not None else 1
            if t == 'computation':
                new = [gen.gen_float(r) for _ in range(n)]
                if nz is None:
                    new = [gen.gen_float(r) for _ in range(r.choice([1, 2, 3]))]
            else:
                if maybe(r, 0.4):
                    new = [gen.nonnumeric_text(r, r.choice([1, 4, 12])) for _ in range(n)]
                elif maybe(r, 0.5):
                    new = [gen.gen_int(r) for _ in range(n)]
                else:
                    new = [gen.gen_float(r) for _ in range(n)]
            # multidimensional values: each of the n samples is itself an array (1 or 2 further levels of nesting)
            if maybe(r, 0.3) and not isinstance(new[0], str) and (t == 'computation' or nz is not None):
                dims = r.choice([[2], [3], [2, 3], [3, 2], [1, 4], [2, 2, 2]])
                cnt = [0]

                def cube(d):
                    if not d:
                        cnt[0] += 1
                        return float(cnt[0]) + 0.5 if isinstance(new[0], float) else cnt[0]
                    return [cube(d[1:]) for _ in range(d[0])]
                new = [cube(dims) for _ in range(len(new))]
                if maybe(r, 0.3):
                    attrs['dimension'] = list(dims)
            attrs['values'] = _wrap_like(vals, new)
    elif t == 'splice':
        if 'input_channels' in attrs and 'zones' in attrs:
            n = len(as_list(_value_of(attrs['input_channels'])))
            pool = c.by_type.get('zone', [])
            if pool:
                attrs['zones'] = [{'$ref': r.choice(pool)} for _ in range(n)]
            else:
                attrs.pop('zones')
    elif t == 'zone':
        dom = attrs.get('domain')
        dom = _value_of(dom) if dom is not None else None
        for k in ('maximum', 'minimum'):
            if k in attrs:
                if dom == 'TIME' and 'maximum' in attrs and 'minimum' in attrs:
                    pass
                v = _value_of(attrs[k])
                if dom is not None and dom != 'TIME' and isinstance(v, (dict, str)):
                    attrs[k] = _wrap_like(attrs[k], gen.gen_float(r))
        if dom == 'TIME' and 'maximum' in attrs and 'minimum' in attrs:
            a, b = _value_of(attrs['maximum']), _value_of(attrs['minimum'])
            if isinstance(a, (dict, str)) != isinstance(b, (dict, str)):
                attrs['minimum'] = _wrap_like(attrs['minimum'], gen.gen_dt(r) if isinstance(a, (dict, str)) else gen.gen_float(r))
    elif t == 'axis':
        if 'coordinates' in attrs:
            v = as_list(_value_of(attrs['coordinates']))
            if len({isinstance(x, str) for x in v}) > 1:
                attrs['coordinates'] = _wrap_like(attrs['coordinates'], [x for x in v if not isinstance(x, str)])
    op = {'op': t, 'name': obj_name(c, t), 'attrs': attrs}
    if maybe(r, 0.15):
        op['set_name'] = c.prefix + r.choice(['SETA', 'SETB'])
    _same_set_for_same_name(c, op)
    return c.add(op)


def _same_set_for_same_name(c, op):
    """Open finding KF-C07-copy-number-across-sets: a name repeated in ANOTHER set of the same type gets the same copy
    number.  While that finding is open, repeated names stay in the set of their first use."""
    if not c.avoid.get('same_name_across_sets'):
        return
    for o in c.sp['ops']:
        if o.get('lf', 0) == c.lf and o['op'] == op['op'] and o['name'] == op['name']:
            if o.get('set_name') is None:
                op.pop('set_name', None)
            else:
                op['set_name'] = o['set_name']
            return


def add_channel_with_data(c: Ctx, rows, tagn, index=False, dtypes=gen.DTYPES, forbid=()):
    r = c.r
    dt = r.choice(['float64', 'float32']) if index else r.choice(list(dtypes))
    shape = (rows,) if index or maybe(r, 0.6) else (rows, r.choice([1, 2, 4]))
    attrs = pick_attrs(c, 'channel', 0.35, exclude=('dimension', 'element_limit', 'axis'))
    op = gen.channel_op(obj_name(c, 'channel', 0.1, forbid=forbid), gen.dtstr(dt, r.choice('<>')), shape,
                        fill={'kind': 'lin', 'start': tagn, 'step': 0.5} if index else {'kind': 'pos', 'tag': tagn},
                        attrs=attrs)
    op['dataset_name'] = f'{c.prefix}ds{len(c.sp["ops"])}'
    if maybe(r, 0.15):
        op['set_name'] = c.prefix + 'CHSET'
    _same_set_for_same_name(c, op)
    if maybe(r, 0.2) and not index:
        per_row = list(shape[1:]) or [1]
        op['attrs']['element_limit'] = [per_row[0] + r.choice([0, 3])]
    return c.add(op)


def meta_spec(r: random.Random, avoid=None, n_objects=None, types=None, origin_pos=None, n_origins=None,
              mx=None, hc=False, later_p=0.3, lf_count=1) -> dict:
    mx = mx or r.choice([128, 512, 8192, 8192, 16384, 20, 32, 64])
    lfs = []
    for l in range(lf_count):
        hid = gen.name(r, f'HDR{l}', r.choice([4, 10, 64, 65]), hc=True)
        lfs.append({'fh_id': hid, 'fh_sequence_number': r.choice([1, 2, 9, 10, 12345, 10 ** 10 - 1])})
    if lf_count > 1 and r.random() < 0.35:
        # logical files whose headers are EQUAL (same id, same sequence number): equal is not identical
        for lf_ in lfs[1:]:
            lf_.update(lfs[0])
    sp = gen.base_spec(mx, lfs=lfs, set_identifier=gen.name(r, 'SUL', r.choice([3, 20, 60]), hc=True))
    for l in range(lf_count):
        c = Ctx(r, sp, lf=l, avoid=avoid, hc=hc, prefix=(f'L{l}-' if lf_count > 1 else ''))
        populate(c, n_objects, types, origin_pos, n_origins, later_p, named_sets=(lf_count > 1))
    sp['write'] = {'output_chunk_size': r.choice([mx, 2 ** 16]), 'input_chunk_size': r.choice([None, 1, 3])}
    if lf_count > 1 and r.random() < 0.5:
        interleave(sp, r)
    if r.random() < 0.25:
        sp['caller_reuses_lists'] = r.choice([True, 'keeps-last'])     # (see spec.run_op: one caller-owned list per keyword, refilled for every call)
    return sp


def remap_indices(x, new_index):
    """Copy of a spec fragment in which every op index ('$ref', '$origin_of', 'target') is replaced by new_index[old]."""
    if isinstance(x, dict):
        out = {}
        for k, v in x.items():
            if k in ('$ref', '$origin_of', 'target') and isinstance(v, int) and not isinstance(v, bool):
                out[k] = new_index[v]
            else:
                out[k] = remap_indices(v, new_index)
        return out
    if isinstance(x, list):
        return [remap_indices(v, new_index) for v in x]
    return x


def interleave(sp, r, origin_race=False):
    """The logical files are built in an INTERLEAVED order (a few calls for one, a few for another, ...): the order of the
    calls made for each logical file stays what it was; the specification is the same.
    origin_race: the last logical file's calls up to its first origin come first, then every other logical file's calls up to
    and including ITS first origin -- objects of one logical file are waiting for their origin while another one gets its."""
    ops = sp['ops']
    queues = {}
    for i, op in enumerate(ops):
        queues.setdefault(op.get('lf', 0), []).append(i)
    order = []
    if origin_race and len(queues) > 1:
        last = max(queues)
        while queues[last] and ops[queues[last][0]]['op'] != 'origin':
            order.append(queues[last].pop(0))
        for l in sorted(queues):
            if l != last:
                while queues[l]:
                    i = queues[l].pop(0)
                    order.append(i)
                    if ops[i]['op'] == 'origin':
                        break
    while any(queues.values()):
        l = r.choice(sorted(k for k, q in queues.items() if q))
        for _ in range(r.choice([1, 1, 2, 3, 6])):
            if queues[l]:
                order.append(queues[l].pop(0))
    new_index = {old: new for new, old in enumerate(order)}
    sp['ops'] = [remap_indices(ops[old], new_index) for old in order]
    sp['interleaved'] = True
    return sp


def populate(c: Ctx, n_objects=None, types=None, origin_pos=None, n_origins=None, later_p=0.3, named_sets=False):
    r = c.r
    n_objects = n_objects if n_objects is not None else r.choice([0, 2, 5, 8, 14, 25])
    types = types or ALL_TYPES
    n_origins = n_origins or r.choice([1, 1, 1, 2, 3])
    origin_pos = origin_pos or r.choice(['first', 'first', 'middle', 'last'])
    plan = [r.choice(types) for _ in range(n_objects)]
    rows = r.choice([1, 2, 4, 9])
    nfr = r.choice([1, 1, 2])
    nch = [r.choice([1, 2, 3]) for _ in range(nfr)]
    steps = [('obj', t) for t in plan]
    fsteps = []
    for f in range(nfr):
        for k in range(nch[f]):
            fsteps.append(('chan', f, k))
        fsteps.append(('frame', f))
    # frames/channels keep their relative order but are interleaved with the other objects
    pos = sorted(r.randrange(len(steps) + 1) for _ in fsteps)
    for off, (p_, st) in enumerate(zip(pos, fsteps)):
        steps.insert(p_ + off, st)
    osteps = [('origin', j) for j in range(n_origins)]
    if origin_pos == 'first':
        steps = osteps[:1] + steps
        rest = osteps[1:]
    elif origin_pos == 'last':
        steps = steps + osteps[:1]
        rest = osteps[1:]
    else:
        k = r.randrange(len(steps) + 1)
        steps.insert(k, osteps[0])
        rest = osteps[1:]
    first_origin_at = steps.index(osteps[0])
    for o in rest:
        steps.insert(r.randrange(first_origin_at + 1, len(steps) + 1), o)
    chans = {}
    tagn = 0
    origin_ops = []
    indexed = {f: maybe(r, 0.4) for f in range(nfr)}
    for st in steps:
        if st[0] == 'origin':
            attrs = pick_attrs(c, 'origin', 0.4, exclude=('file_set_number', 'creation_time'))
            op = gen.origin_op(obj_name(c, 'origin', 0.0), lf=c.lf, fsn=gen.gen_int(r, 1, 2 ** 30 - 1), ctime=gen.gen_dt(r), **attrs)
            if st[1] > 0 and maybe(r, 0.4):
                op['set_name'] = c.prefix + 'ORIGINS2'
            elif named_sets:
                op['set_name'] = c.prefix + 'ORIGINS'
            origin_ops.append(c.add(op))
        elif st[0] == 'chan':
            tagn += 1
            i = add_channel_with_data(c, rows, tagn, index=(indexed[st[1]] and st[2] == 0),
                                      forbid=[c.sp['ops'][j]['name'] for j in chans.get(st[1], [])])
            chans.setdefault(st[1], []).append(i)
        elif st[0] == 'frame':
            attrs = pick_attrs(c, 'frame', 0.3, only=('description', 'encrypted'))
            if indexed[st[1]]:
                attrs['index_type'] = gen.gen_scalar(r, 'frame', 'index_type', 'ident', {})
            op = gen.frame_op(obj_name(c, 'frame', 0.1), chans[st[1]], lf=c.lf, **attrs)
            c.add(op)
        else:
            make_object(c, st[1], p=r.choice([0.2, 0.5, 0.9]))
    # the defining origin gets an explicit reference R; objects created BEFORE it may name R explicitly (others are
    # back-filled with it), so same-named objects reach the same origin by two different routes
    if origin_ops and maybe(r, 0.35):
        R = r.choice([3, 5, 127, 128, 200])
        first = origin_ops[0]
        c.sp['ops'][first]['attrs']['origin_reference'] = R
        for i, op in enumerate(c.sp['ops']):
            if op.get('lf', 0) == c.lf and op['op'] in schema.TYPES and op['op'] != 'origin' and 'origin_reference' not in op:
                if (i < first and maybe(r, 0.4)) or (i > first and maybe(r, 0.15)):
                    op['origin_reference'] = R
    # explicit origin references for some objects created after >= 2 origins exist
    if len(origin_ops) >= 2:
        for i, op in enumerate(c.sp['ops']):
            if op.get('lf', 0) == c.lf and op['op'] in schema.TYPES and op['op'] != 'origin' and i > origin_ops[1] and maybe(r, 0.25) \
                    and 'origin_reference' not in op:
                op['origin_reference'] = {'$origin_of': r.choice([o for o in origin_ops if o < i])}
    if named_sets:
        for op in c.sp['ops']:
            if op.get('lf', 0) == c.lf and op['op'] in schema.TYPES and op.get('set_name') is None:
                op['set_name'] = c.prefix + 'S'
    # later assignments
    n_later = 0
    mine = [(i, op) for i, op in enumerate(c.sp['ops']) if op.get('lf', 0) == c.lf and op['op'] in schema.TYPES
            and op['op'] not in ('origin',)]
    for i, op in mine:
        if not maybe(r, later_p):
            continue
        t = op['op']
        cands = [(kw, lab, kind, multi) for kw, lab, kind, multi in schema.TYPES[t]['attrs']
                 if kw not in op['attrs'] and kind in ('text', 'num', 'fdoubl') and not multi
                 and not (t == 'frame' and kw in ('spacing', 'index_min', 'index_max'))]
        if t == 'group':
            cands.append(('object_type', 'OBJECT-TYPE', 'ident', False))
        if not cands:
            continue
        kw, lab, kind, multi = r.choice(cands)
        v = gen.gen_scalar(r, t, kw, kind, c.refs())
        via = r.choice([None, None, 'set_attributes'])
        c.sp['ops'].append({'op': 'assign', 'lf': c.lf, 'target': i, 'target_op': t, 'kw': kw, 'part': 'value', 'value': v, 'via': via})
        if kind in schema.UNITS_KINDS and maybe(r, 0.5):
            c.sp['ops'].append({'op': 'assign', 'lf': c.lf, 'target': i, 'target_op': t, 'kw': kw, 'part': 'units',
                                'value': r.choice(gen.UNIT_STRINGS), 'via': r.choice([None, 'set_attributes']),
                                'via_form': r.choice(['dict', 'AttrSetup'])})
        n_later += 1
    return c
