"""Oracles: decide observed executions (a written file + tap events + the spec) per property.

Every function appends Violation objects (prop, kind, mech, detail) to run.violations and bumps
observation-class counters in run.obs.  `mech` is the mechanism key used by the known-findings
protocol (DESIGN.md section 4): it is derived from *what* failed, never from random values.
"""
from __future__ import annotations
import math
from collections import Counter
from dataclasses import dataclass, field
from fractions import Fraction
from typing import Any, Optional

import numpy as np

from . import rp66, schema, expect
from .rp66 import Malformed


@dataclass
class Violation:
    prop: str
    kind: str
    mech: str
    detail: str

    def as_dict(self):
        return {'prop': self.prop, 'kind': self.kind, 'mech': self.mech, 'detail': self.detail[:600]}


class Run:
    """One observed execution."""

    def __init__(self, spec, built=None, wout=None, data: Optional[bytes] = None, lr_events=None,
                 flush_events=None, logs=None, arrays=None):
        self.spec = spec
        self.built = built
        self.wout = wout                    # ('ok',) | ('exc', type, msg)
        self.data = data
        self.lr_events = lr_events          # list of (is_eflr, type_struct, body, cap) or None
        self.flush_events = flush_events
        self.logs = logs or []
        self.arrays = arrays if arrays is not None else (built.arrays if built is not None else {})
        self.violations: list = []
        self.obs: Counter = Counter()
        self.phys = None
        self.records = None
        self.lfs = None
        self.stage_error = None             # (stage, Malformed)
        self.exp = None
        self.match = None                   # op index -> (lf index, EflrSet, Obj)
        self.notes = []

    def v(self, prop, kind, mech, detail=''):
        self.violations.append(Violation(prop, kind, mech, str(detail)))

    def by_prop(self, prop):
        return [x for x in self.violations if x.prop == prop]


# ------------------------------------------------------------------------------------------------
# decoding stages
# ------------------------------------------------------------------------------------------------

def decode(run: Run) -> None:
    if run.data is None or run.phys is not None or run.stage_error is not None:
        return
    try:
        run.phys = rp66.physical(run.data)
    except Malformed as e:
        run.stage_error = ('physical', e)
        return
    try:
        run.records = rp66.logical(run.phys)
    except Malformed as e:
        run.stage_error = ('logical', e)
        return
    try:
        run.lfs = rp66.decode_records(run.records)
    except Malformed as e:
        run.stage_error = ('semantic', e)
        # keep what can be parsed record by record for diagnostics
        return


def stage_mech(e: Malformed) -> str:
    return e.kind


# ------------------------------------------------------------------------------------------------
# C01 physical layout
# ------------------------------------------------------------------------------------------------

def check_c01(run: Run) -> None:
    decode(run)
    if run.stage_error and run.stage_error[0] == 'physical':
        e = run.stage_error[1]
        run.v('C01', 'physical-malformed', e.kind, str(e))
        return
    ph = run.phys
    sul = dict(run.spec.get('sul', {}))
    for i, op in enumerate(run.spec.get('ops', [])):     # label fields re-assigned later (storage_unit_label.<field> = ...)
        if op.get('op') == 'set_sul' and run.built is not None and i < len(run.built.outcomes) and run.built.outcomes[i][0] == 'ok':
            sul[op['field']] = op['value']
    seq = sul.get('sequence_number', 1)
    mx = sul.get('max_record_length', 8192)
    ident = sul.get('set_identifier', 'MAIN-STORAGE-UNIT')
    if ph.sul.sequence_number != str(seq).rjust(4):
        run.v('C01', 'sul-field', 'sul-sequence-number', f'{ph.sul.sequence_number!r} for {seq!r}')
    if ph.sul.max_record_length != str(mx).rjust(5):
        run.v('C01', 'sul-field', 'sul-max-record-length', f'{ph.sul.max_record_length!r} for {mx!r}')
    if ph.sul.set_identifier != str(ident).ljust(60):
        run.v('C01', 'sul-field', 'sul-set-identifier', f'{ph.sul.set_identifier!r} for {ident!r}')
    cap = mx - 8
    for vr in ph.vrs:
        run.obs['vr'] += 1
        if vr.length == mx:
            run.obs['vr-at-maximum'] += 1
        if len(vr.segments) > 1:
            run.obs['vr-multi-segment'] += 1
        for s in vr.segments:
            run.obs['segment'] += 1
            if s.pad:
                run.obs['segment-padded'] += 1
                if s.pad > 1:
                    run.obs['segment-pad-gt1'] += 1
            if len(s.body) == 12:
                run.obs['segment-body-12'] += 1
    if not ph.vrs:
        run.v('C01', 'no-visible-records', 'no-visible-records', 'file has only a label')
    # pad count vs contents, using the tap as the reference for which bytes are payload
    if run.lr_events is not None and run.records is not None and len(run.lr_events) == len(run.records):
        for ev, rec in zip(run.lr_events, run.records):
            if any(s.pad for s in rec.segments):
                want = len(ev[2])
                got = sum(len(s.body) for s in rec.segments)
                if want != got:
                    run.v('C01', 'pad-count-disagrees-with-contents', 'pad-count',
                          f'record {rec.index}: payload {want} bytes, segments carry {got} after removing pads')


# ------------------------------------------------------------------------------------------------
# C02 segmentation
# ------------------------------------------------------------------------------------------------

def check_c02(run: Run) -> None:
    decode(run)
    if run.stage_error:
        st, e = run.stage_error
        if st == 'logical':
            run.v('C02', 'bracketing', e.kind, str(e))
        if st == 'physical' and run.lr_events:
            # the records handed to the writer cannot be reassembled from a file whose visible records / segments cannot even
            # be delimited: nothing is "lossless, ordered and correctly bracketed" there
            run.v('C02', 'not-reassemblable', 'not-reassemblable:' + e.kind,
                  f'{len(run.lr_events)} records were handed to the writer; the file cannot be split into segments: {e}')
        if st in ('physical', 'logical'):
            return
    recs = run.records
    for r in recs:
        n = len(r.segments)
        run.obs['records'] += 1
        run.obs['segcount-%s' % (n if n < 4 else '4+')] += 1
        if r.explicit and n > 1:
            run.obs['eflr-continuation'] += 1
        mx = int(run.phys.sul.max_record_length)
        for s in r.segments[:-1]:
            if len(s.raw_body) < mx - 8:
                run.obs['nonlast-shortened'] += 1
            if s.pad:
                run.obs['nonlast-padded'] += 1
    if run.lr_events is None:
        run.obs['no-tap'] += 1
        return
    evs = run.lr_events
    if len(evs) != len(recs):
        run.v('C02', 'record-count', 'record-count',
              f'writer was given {len(evs)} logical records, file reassembles to {len(recs)}')
    for k, (ev, r) in enumerate(zip(evs, recs)):
        is_eflr, tstruct, body, cap = ev
        run.obs['tap-compared'] += 1
        if bool(is_eflr) != r.explicit:
            run.v('C02', 'structure-flag', 'structure-flag', f'record {k}: given eflr={is_eflr}, file {r.explicit}')
        if tstruct != bytes([r.type]):
            run.v('C02', 'record-type', 'record-type', f'record {k}: given {tstruct!r}, file {r.type}')
        if body != r.body:
            mech = 'body-mismatch'
            if len(body) != len(r.body):
                mech = 'body-length'
            elif sorted(body) == sorted(r.body):
                mech = 'body-reordered'
            # locate first difference
            d = next((i for i in range(min(len(body), len(r.body))) if body[i] != r.body[i]),
                     min(len(body), len(r.body)))
            run.v('C02', 'body-mismatch', mech,
                  f'record {k} (cap {cap}, len {len(body)}): first difference at {d}; file has {len(r.body)} bytes')


# ------------------------------------------------------------------------------------------------
# matching expected objects to decoded objects
# ------------------------------------------------------------------------------------------------

def ensure_expected(run: Run) -> None:
    if run.exp is None:
        run.exp = expect.expected_model(run.spec, run.built.outcomes if run.built else [])


def match(run: Run) -> None:
    """Populate run.match (op index -> (lfi, set, obj)); records structural mismatches as C04/C18."""
    if run.match is not None:
        return
    decode(run)
    ensure_expected(run)
    run.match = {}
    if run.lfs is None:
        return
    if len(run.lfs) != len(run.exp):
        run.v('C18', 'logical-file-count', 'logical-file-count',
              f'{len(run.exp)} logical files specified, {len(run.lfs)} FILE-HEADER records decoded')
    for lfi, (el, dl) in enumerate(zip(run.exp, run.lfs)):
        dsets = {}
        for s in dl.sets[1:]:
            key = (s.type, s.name)
            if key in dsets:
                run.v('C09', 'duplicate-set', 'duplicate-set', f'lf {lfi}: set {key} appears twice')
                continue
            dsets[key] = s
        esets = el.sets()
        for key, eobjs in esets.items():
            dkey = (key[0], key[1] if key[1] else None)
            ds = dsets.get(dkey)
            if ds is None:
                run.v('C04', 'set-missing', 'set-missing', f'lf {lfi}: expected set {key} with {len(eobjs)} objects')
                continue
            if len(ds.objects) != len(eobjs):
                run.v('C04', 'object-count', 'object-count',
                      f'lf {lfi} set {key}: {len(eobjs)} objects defined, {len(ds.objects)} object components '
                      f'({[o.name for o in ds.objects][:8]})')
            for eo, do in zip(eobjs, ds.objects):
                run.match[eo.op_index] = (lfi, ds, do)
        for dkey, ds in dsets.items():
            if (dkey[0], dkey[1]) not in esets and (dkey[0], dkey[1] or None) not in \
                    {(k[0], k[1] or None) for k in esets}:
                run.v('C04', 'unexpected-set', 'unexpected-set', f'lf {lfi}: set {dkey} not specified')


# ------------------------------------------------------------------------------------------------
# C04 grammar
# ------------------------------------------------------------------------------------------------

def check_c04(run: Run) -> None:
    decode(run)
    if run.stage_error:
        st, e = run.stage_error
        if st == 'semantic' and not e.kind.startswith('iflr'):
            run.v('C04', 'eflr-malformed', e.kind, str(e))
        return
    match(run)
    for dl in run.lfs:
        for s in dl.sets:
            run.obs['sets'] += 1
            run.obs['settype-' + s.type] += 1
            if s.name is not None:
                run.obs['named-set'] += 1
            if len(s.objects) > 1:
                run.obs['multi-object-set'] += 1
            for o in s.objects:
                for a in o.attrs.values():
                    if a.absent:
                        run.obs['absent-attribute'] += 1
                    elif a.omitted:
                        run.obs['omitted-trailing'] += 1
                    else:
                        if a.explicit_count:
                            if a.count_width >= 2:
                                run.obs['count-2byte'] += 1
                            elif a.count >= 2:
                                run.obs['count-2..127'] += 1
                            elif a.count == 0:
                                run.obs['count-0'] += 1
                        if a.units:
                            run.obs['units-component'] += 1
                        if a.values is None:
                            run.obs['present-no-value'] += 1
                            if s.type != 'FILE-HEADER':
                                run.v('C04', 'present-without-value', 'present-without-value',
                                      f'{s.type} {o.name} {a.label}: attribute component present (descriptor '
                                      f'{a.descriptor:#x}) but no value and not marked absent')


# ------------------------------------------------------------------------------------------------
# C05 metadata fidelity
# ------------------------------------------------------------------------------------------------

ORIGIN_DEFAULTS = {'FILE-ID', 'FILE-SET-NUMBER', 'CREATION-TIME', 'FIELD-NAME'}
CHANNEL_DEFAULTS = {'LONG-NAME', 'REPRESENTATION-CODE', 'DIMENSION', 'ELEMENT-LIMIT'}
FRAME_DEFAULTS = {'SPACING', 'DIRECTION', 'INDEX-MIN', 'INDEX-MAX'}
DEFAULTS = {'origin': ORIGIN_DEFAULTS, 'channel': CHANNEL_DEFAULTS, 'frame': FRAME_DEFAULTS,
            'parameter': {'DIMENSION'}, 'computation': {'DIMENSION'}, 'calibration_measurement': {'DIMENSION'}}


def value_mech(kind, a_kind):
    return f'{kind}:{a_kind}'


def compare_attr(run: Run, eo, ea, da, lfi) -> None:
    """ea: ExpAttr (assigned), da: decoded Attr."""
    where = f'lf {lfi} {eo.set_type} {eo.name!r} {ea.label}'
    run.obs['attr-compared'] += 1
    run.obs['kind-' + ea.kind] += 1
    run.obs['route-' + ea.route] += 1
    exp_vals = ea.value if ea.multi else [ea.value]
    if isinstance(exp_vals, list) and len(exp_vals) == 0:
        # degenerate but representable: must be absent / no value / count 0
        run.obs['empty-list-assigned'] += 1
        if da.absent or da.values is None or len(da.values) == 0:
            return
        run.v('C05', 'value-mismatch', 'empty-list', f'{where}: assigned [], decoded {da.values!r}')
        return
    if da.absent or da.omitted or da.values is None:
        run.v('C05', 'assigned-attribute-missing', 'missing:' + ea.kind, f'{where}: assigned {ea.value!r}, decoded absent')
        return
    if len(da.values) != len(exp_vals):
        run.v('C05', 'value-count', 'count:' + ea.kind,
              f'{where}: {len(exp_vals)} values assigned, {len(da.values)} decoded')
        return
    for x, d in zip(exp_vals, da.values):
        if not value_equal(run, ea.kind, da.code, d, x, eo):
            run.v('C05', 'value-mismatch', f'value:{ea.kind}:{rp66.CODE_NAMES.get(da.code)}',
                  f'{where}: assigned {x!r}, decoded {d!r} (code {rp66.CODE_NAMES.get(da.code)})')
            break


def value_equal(run, kind, code, d, x, eo) -> bool:
    if isinstance(x, tuple) and x and x[0] == 'dt':
        return code == 21 and expect.dtime_equal(d, x[1])
    if isinstance(x, tuple) and x and x[0] == 'ref':
        tgt = run.match.get(x[1])
        if tgt is None:
            return False
        _, tset, tobj = tgt
        if code == 23:
            return tuple(d) == tuple(tobj.name)
        if code == 24:
            return d[0] == tset.type and tuple(d[1:]) == tuple(tobj.name)
        return False
    if kind in ('text',):
        return code == 20 and d == x
    if kind == 'ident':
        return code in (19, 27) and d == x
    if kind == 'lname':
        return code == 20 and d == x
    if kind == 'mnum':
        if isinstance(x, str):
            return code == 20 and d == x
        return expect.num_equal(code, d, x)
    if kind == 'status':
        return code == 26 and d == x
    if kind in ('num', 'fdoubl', 'uvari', 'unorm', 'ushort', 'int', 'dim', 'dtf'):
        return expect.num_equal(code, d, x)
    return d == x


def check_c05(run: Run) -> None:
    match(run)
    if run.lfs is None:
        return
    # "under that object's set type, name ...": two objects of ONE set with the same identity cannot be told apart by a
    # reader, so values assigned to one of them are not attributable (same-named objects must differ in copy number)
    for lfi, dl in enumerate(run.lfs):
        for s_ in dl.sets:
            seen = {}
            for o_ in s_.objects:
                k_ = tuple(o_.name)
                if k_ in seen and any(not (a.absent or a.omitted) for a in list(o_.attrs.values()) + list(seen[k_].attrs.values())):
                    run.v('C05', 'objects-indistinguishable', 'objects-indistinguishable',
                          f'lf {lfi} set {s_.type}/{s_.name}: two objects are written as {k_}; their attribute values cannot be attributed')
                    break
                seen[k_] = o_
            run.obs['c05-set-identities-checked'] += 1
    for lfi, el in enumerate(run.exp):
        for eo in el.objects:
            m = run.match.get(eo.op_index)
            if m is None:
                continue
            _, ds, do = m
            run.obs['object-compared'] += 1
            if do.name[2] != eo.name:
                run.v('C05', 'object-name', 'object-name',
                      f'lf {lfi} {eo.set_type}: object #{eo.op_index} named {eo.name!r} decoded as {do.name!r}')
                continue
            defaults = DEFAULTS.get(eo.op, set())
            for lab, ea in eo.attrs.items():
                da = do.attrs.get(lab)
                if da is None:
                    if ea.assigned:
                        run.v('C05', 'label-missing-from-template', 'label:' + lab,
                              f'{eo.set_type} template lacks {lab}')
                    continue
                if ea.assigned:
                    compare_attr(run, eo, ea, da, lfi)
                elif not (da.absent or da.omitted or da.values is None):
                    if lab not in defaults:
                        run.v('C05', 'unassigned-attribute-present', 'unassigned:' + lab,
                              f'lf {lfi} {eo.set_type} {eo.name!r} {lab}: never assigned, decoded {da.values!r}')
                    else:
                        run.obs['default-' + lab] += 1
                        check_default(run, eo, lab, da, lfi)
                # units
                want_u = ea.units or ''
                if ea.units_assigned:
                    run.obs['units-compared'] += 1
                    if not (da.absent or da.omitted) and da.units != want_u:
                        run.v('C05', 'units-mismatch', 'units:' + ea.kind,
                              f'lf {lfi} {eo.set_type} {eo.name!r} {lab}: units {want_u!r} assigned, decoded {da.units!r}')
                    elif (da.absent or da.omitted) and want_u and ea.assigned:
                        pass    # reported as missing value above
                elif da.units and not (eo.op == 'frame' and lab in ('INDEX-MIN', 'INDEX-MAX', 'SPACING')):
                    run.v('C05', 'unassigned-units-present', 'unassigned-units:' + lab,
                          f'lf {lfi} {eo.set_type} {eo.name!r} {lab}: units never assigned, decoded {da.units!r}')
                elif da.units and eo.op == 'frame' and not (da.absent or da.omitted):
                    # documented default: the index attributes take the units of the index channel -- as they are NOW
                    want_units = _index_channel_units(run, eo)
                    if want_units is not None:
                        run.obs['default-index-units-checked'] += 1
                        if da.units != want_units:
                            run.v('C05', 'default-value', 'default:index-units',
                                  f'lf {lfi} FRAME {eo.name!r} {lab}: units {da.units!r}, the index channel has {want_units!r}')
            # labels decoded that the schema does not know
            known = set(eo.attrs) | set(schema.TYPES[eo.op].get('derived', []))
            for lab, da in do.attrs.items():
                if lab not in known and not (da.absent or da.omitted or da.values is None):
                    run.v('C05', 'unknown-label-with-value', 'unknown-label:' + lab,
                          f'{eo.set_type} {eo.name!r}: {lab} = {da.values!r}')


def _index_channel_units(run, eo):
    """Current units of the first channel of frame `eo` per the expected model ('' if none); None if unknown."""
    fop = run.spec['ops'][eo.op_index]
    cv, _, _ = expect.interpret('frame', 'channels', fop.get('attrs', {}).get('channels'))
    if isinstance(cv, dict) and '$tuple' in cv:
        cv = cv['$tuple']
    if not cv:
        return None
    ci = cv[0].get('$ref')
    for el in run.exp:
        for o in el.objects:
            if o.op_index == ci:
                a = o.attrs.get('UNITS')
                if a is None:
                    return None
                return a.value if (a.assigned and a.value is not None) else ''
    return None


def check_default(run, eo, lab, da, lfi):
    """Documented write-time defaults with a definite value."""
    if eo.op == 'origin' and lab == 'FIELD-NAME':
        if da.values != ['WILDCAT']:
            run.v('C05', 'default-value', 'default:FIELD-NAME', f'{da.values!r}')
    elif eo.op == 'origin' and lab == 'FILE-ID':
        want = run.exp[lfi].header_id
        if da.values != [want]:
            run.v('C05', 'default-value', 'default:FILE-ID', f'{da.values!r} != {want!r}')
    elif eo.op in ('parameter', 'computation') and lab == 'DIMENSION':
        # derived from the shape of one sample of VALUES ([1] for a flat list)
        vspec = run.spec['ops'][eo.op_index].get('attrs', {}).get('values')
        if vspec is not None and not any(o.get('op') == 'assign' and o.get('target') == eo.op_index for o in run.spec['ops']):
            val, _, _ = expect.interpret(eo.op, 'values', vspec)
            if isinstance(val, dict) and '$tuple' in val:
                val = val['$tuple']
            if isinstance(val, list) and val:
                dims = []
                x = val[0]
                while isinstance(x, list):
                    dims.append(len(x))
                    x = x[0] if x else None
                want = dims or [1]
                if da.values != want:
                    run.v('C05', 'default-value', 'default:DIMENSION', f'{eo.set_type} {eo.name!r}: DIMENSION {da.values!r}, one sample of VALUES has shape {want}')
                else:
                    run.obs['default-DIMENSION-checked'] += 1
    elif eo.op == 'channel' and lab == 'LONG-NAME':
        if da.values != [eo.name]:
            run.v('C05', 'default-value', 'default:LONG-NAME', f'{da.values!r} != {eo.name!r}')


# ------------------------------------------------------------------------------------------------
# C07 identity & references
# ------------------------------------------------------------------------------------------------

# (set type, attribute label) of references whose target may be of any type (schema kind 'ref:*' / 'objref')
ANY_TYPE_REFERENCES = {(schema.TYPES[t]['set'], lab) for t in schema.TYPES for kw, lab, kind, multi in schema.TYPES[t]['attrs']
                       if kind in ('ref:*', 'objref')}


def check_c07(run: Run) -> None:
    match(run)
    if run.stage_error and run.stage_error[0] == 'semantic' and run.stage_error[1].kind.startswith('iflr'):
        run.v('C07', 'iflr-reference-undecodable', run.stage_error[1].kind, str(run.stage_error[1]))
    if run.lfs is None:
        return
    for lfi, dl in enumerate(run.lfs):
        ids = Counter()
        defined_at = {}
        origin_refs = []
        for pos, (k, x) in enumerate(dl.sequence):
            if k != 'E':
                continue
            for o in x.objects:
                key = (x.type,) + tuple(o.name)
                ids[key] += 1
                defined_at.setdefault(key, pos)
                if x.type == 'ORIGIN':
                    origin_refs.append(o.name[0])
                if o.name[1] > 0:
                    run.obs['copy-number>0'] += 1
        set_of = {}
        for k, x in dl.sequence:
            if k == 'E':
                for o in x.objects:
                    set_of.setdefault((x.type,) + tuple(o.name), []).append(x.name)
        for key, n in ids.items():
            if n > 1:
                across = len(set(set_of[key])) == n      # every duplicate lives in a different set of this type
                run.v('C07', 'identity-not-unique',
                      ('duplicate-identity-across-sets' if across else 'duplicate-identity-same-set'),
                      f'lf {lfi}: {n} objects share identity {key} (sets {set_of[key]})')
        # origin fields
        for k, x in dl.sequence:
            if k != 'E':
                continue
            for o in x.objects:
                if x.type == 'FILE-HEADER':
                    run.obs['header-origin-field-checked'] += 1
                    chosen = [op_['value'] for op_ in run.spec['ops'] if op_.get('op') == 'set_header' and op_.get('lf', 0) == lfi
                              and op_.get('field') == 'origin_reference']
                    if chosen:
                        # "the defining origin unless the user chose another": whenever the choice was made
                        run.obs['header-origin-chosen-by-user'] += 1
                        if o.name[0] != chosen[-1]:
                            run.v('C07', 'origin-field-wrong', 'origin-field-wrong:file-header',
                                  f'lf {lfi}: the user set the file header\'s origin reference to {chosen[-1]}, it is written with {o.name[0]}')
                if o.name[0] not in origin_refs:
                    run.v('C07', 'origin-field-unknown', 'origin-field-unknown' + (':file-header' if x.type == 'FILE-HEADER' else ''),
                          f'lf {lfi}: {x.type} {o.name} has origin {o.name[0]}, ORIGIN objects have {origin_refs}')
        # every reference resolves to exactly one object of this logical file
        names = Counter()
        for key in ids:
            names[key[1:]] += 0
        by_obname = {}
        for key in ids:
            by_obname.setdefault(key[1:], []).append(key[0])
        for pos, (k, x) in enumerate(dl.sequence):
            if k == 'E':
                for o in x.objects:
                    for a in o.attrs.values():
                        if a.values is None or a.code not in (23, 24):
                            continue
                        for val in a.values:
                            run.obs['reference-checked'] += 1
                            if a.code == 24:
                                run.obs['objref-seen'] += 1
                                key = tuple(val)
                                if ids.get(key, 0) != 1:
                                    n_ = ids.get(key, 0)
                                    mech = 'objref-unresolved'
                                    if n_ > 1 and len(set(set_of[key])) == n_:
                                        mech = 'reference-ambiguous-across-sets'
                                    run.v('C07', 'reference-unresolved', mech,
                                          f'lf {lfi}: {x.type} {o.name} {a.label} -> {val} matches {n_} objects')
                            else:
                                cands = by_obname.get(tuple(val), [])
                                if len(cands) == 0:
                                    run.v('C07', 'reference-unresolved', 'obname-unresolved',
                                          f'lf {lfi}: {x.type} {o.name} {a.label} -> {val} matches no object')
                                elif len(set(cands)) > 1 and (x.type, a.label) in ANY_TYPE_REFERENCES:
                                    # a reference that may point to an object of ANY type, written without the type: it
                                    # matches objects of several types
                                    run.v('C07', 'reference-unresolved', 'obname-ambiguous-across-types',
                                          f'lf {lfi}: {x.type} {o.name} {a.label} -> {val} (no type written) matches objects of types {sorted(set(cands))}')
            else:
                want_type = 'FRAME' if x.type == 0 else 'NO-FORMAT'
                key = (want_type,) + tuple(x.ref)
                run.obs['iflr-reference-checked'] += 1
                if ids.get(key, 0) != 1:
                    run.v('C07', 'iflr-reference-unresolved',
                          ('reference-ambiguous-across-sets' if ids.get(key, 0) > 1 and len(set(set_of[key])) == ids[key]
                           else 'iflr-unresolved'),
                          f'lf {lfi}: IFLR type {x.type} refers to {x.ref}: {ids.get(key, 0)} {want_type} objects match')
                elif defined_at[key] > pos:
                    run.v('C07', 'iflr-before-definition', 'iflr-before-definition',
                          f'lf {lfi}: IFLR at record {pos} precedes definition of {key}')
    # expected targets and origins, per op
    ensure_expected(run)
    for lfi, el in enumerate(run.exp):
        if lfi >= len(run.lfs):
            break
        dl = run.lfs[lfi]
        osets = [s for s in dl.sets if s.type == 'ORIGIN']
        def_origin = osets[0].objects[0].name[0] if osets and osets[0].objects else None
        for eo in el.objects:
            m = run.match.get(eo.op_index)
            if m is None:
                continue
            _, ds, do = m
            # an ORIGIN object given an explicit reference carries that reference
            if eo.op == 'origin':
                own = run.spec['ops'][eo.op_index].get('attrs', {}).get('origin_reference')
                for op_ in run.spec['ops']:
                    if op_.get('op') == 'setattr' and op_.get('target') == eo.op_index and op_.get('field') == 'origin_reference':
                        own = op_['value']      # (re-assigned after creation)
                if isinstance(own, int) and not isinstance(own, bool):
                    run.obs['origin-own-reference-checked'] += 1
                    if do.name[0] != own:
                        run.v('C07', 'origin-field-wrong', 'origin-own-reference',
                              f'lf {lfi}: ORIGIN {eo.name!r} was given the reference {own}, it is written with {do.name[0]}')
            # origin field
            if eo.op != 'origin':
                want = def_origin
                org = eo.origin
                if isinstance(org, dict) and '$origin_of' in org:
                    t = run.match.get(org['$origin_of'])
                    want = t[2].name[0] if t else None
                    run.obs['explicit-origin'] += 1
                elif isinstance(org, int) and not isinstance(org, bool):
                    want = org          # (0 is a reference like any other)
                    run.obs['explicit-origin'] += 1
                    if org == 0:
                        run.obs['explicit-origin-zero'] += 1
                if not eo.created_after_origin:
                    run.obs['origin-backfilled'] += 1
                if want is not None and do.name[0] != want:
                    run.v('C07', 'origin-field-wrong', 'origin-field-wrong',
                          f'lf {lfi}: {eo.set_type} {eo.name!r} has origin {do.name[0]}, expected {want}')
                elif want is not None and want != def_origin:
                    run.obs['non-defining-origin'] += 1
            # reference targets
            for lab, ea in eo.attrs.items():
                if not ea.assigned:
                    continue
                vals = ea.value if ea.multi else [ea.value]
                da = do.attrs.get(lab)
                if da is None or da.values is None or len(da.values) != len(vals):
                    continue
                for x, d in zip(vals, da.values):
                    if isinstance(x, tuple) and x and x[0] == 'ref':
                        t = run.match.get(x[1])
                        if t is None:
                            continue
                        run.obs['reference-target-compared'] += 1
                        tname = tuple(t[2].name)
                        got = tuple(d[1:]) if da.code == 24 else tuple(d)
                        if got != tname or (da.code == 24 and d[0] != t[1].type):
                            run.v('C07', 'reference-wrong-target', 'wrong-target:' + lab,
                                  f'lf {lfi}: {eo.set_type} {eo.name!r} {lab}: passed object #{x[1]} '
                                  f'({t[1].type} {tname}), decoded {d}')


# ------------------------------------------------------------------------------------------------
# frames: C03, C08, C13
# ------------------------------------------------------------------------------------------------

def _cast_of(spec, ci):
    c = spec['ops'][ci].get('cast_dtype')
    for op in spec['ops']:      # later `channel.cast_dtype = ...` assignments (the last one counts)
        if op.get('op') == 'setattr' and op.get('target') == ci and op.get('field') == 'cast_dtype':
            c = op['value']
    if c is None:
        return None
    return np.dtype(c['$dtype']) if isinstance(c, dict) else np.dtype(c)


def uncastable(arr, cast) -> Optional[str]:
    """Why the declared cast of these floating-point values has no defined result (numpy: undefined behaviour, in practice
    dependent on how many values are converted at once and on their memory layout), or None if every value has one.
    float -> integer: defined iff the value is finite and its truncation lies in the target's range (then it is numpy's
    result on every path); float -> narrower float: a finite value must not become infinite."""
    cast = np.dtype(cast)
    if arr.dtype.kind != 'f' or arr.size == 0:
        return None
    a = np.asarray(arr, dtype=np.float64)
    if cast.kind in 'iu':
        info = np.iinfo(cast)
        t = np.trunc(a)
        with np.errstate(invalid='ignore'):
            bad = ~np.isfinite(a) | (t < float(info.min)) | (t >= float(info.max) + 1.0)
        if bad.any():
            return f'{a[bad].ravel()[0]!r} -> {cast.name}'
    elif cast.kind == 'f' and cast.itemsize < arr.dtype.itemsize:
        with np.errstate(over='ignore', invalid='ignore'):
            bad = np.isfinite(a) & np.isinf(a.astype(cast))
        if bad.any():
            return f'{a[bad].ravel()[0]!r} -> {cast.name}'
    return None


def expected_rows(run: Run, fr) -> Optional[list]:
    """Per row: list of per-channel big-endian byte strings.  None if data unavailable."""
    w = run.spec.get('write', {})
    f0 = w.get('from_idx') or 0
    t0 = w.get('to_idx')
    cols = []
    n = None
    for ci in fr.channel_ops:
        arr = run.arrays.get(ci)
        if arr is None:
            return None
        cast = _cast_of(run.spec, ci)
        if cast is not None and cast != arr.dtype:
            arr = arr.astype(cast)
        hi = arr.shape[0] if t0 is None else t0
        sl = arr[f0:hi]
        if n is None:
            n = sl.shape[0]
        cols.append(sl)
    rows = []
    for r in range(n):
        rows.append([spec_row(c, r) for c in cols])
    return rows


def spec_row(arr, r):
    from .spec import row_bytes_be
    return row_bytes_be(arr, r)


def frame_iflrs(run: Run, lfi, fobj):
    dl = run.lfs[lfi]
    return [x for x in dl.iflrs if x.type == 0 and tuple(x.ref) == tuple(fobj.name)]


def channel_layout(run: Run, lfi, fobj):
    """From the decoded FRAME object's CHANNELS and the decoded CHANNEL objects:
    list of (channel obname, code, dimension list) or None if unresolvable."""
    dl = run.lfs[lfi]
    ch = {}
    for s in dl.sets:
        if s.type == 'CHANNEL':
            for o in s.objects:
                ch.setdefault(tuple(o.name), []).append(o)
    a = fobj.attrs.get('CHANNELS')
    if a is None or a.values is None:
        return None
    out = []
    for ref in a.values:
        objs = ch.get(tuple(ref), [])
        if len(objs) != 1:
            return None
        o = objs[0]
        rc = o.attrs.get('REPRESENTATION-CODE')
        dm = o.attrs.get('DIMENSION')
        el = o.attrs.get('ELEMENT-LIMIT')
        out.append((tuple(ref), rc.values[0] if rc is not None and rc.values else None,
                    list(dm.values) if dm is not None and dm.values is not None else None,
                    list(el.values) if el is not None and el.values is not None else None))
    return out


def check_frames(run: Run) -> None:
    """C03 + C08 + C13 share the frame walk."""
    match(run)
    if run.lfs is None:
        return
    w = run.spec.get('write', {})
    for lfi, el in enumerate(run.exp):
        if lfi >= len(run.lfs):
            break
        for fr in el.frames:
            m = run.match.get(fr.op_index)
            if m is None:
                continue
            _, fset, fobj = m
            rows = expected_rows(run, fr)
            recs = frame_iflrs(run, lfi, fobj)
            fname = run.spec['ops'][fr.op_index]['name']
            run.obs['frame-checked'] += 1
            layout = channel_layout(run, lfi, fobj)
            # ---- C08 descriptors
            if layout is None:
                run.v('C08', 'channels-unresolvable', 'channels-unresolvable', f'frame {fname!r}')
            else:
                widths = []
                for (ref, code, dim, el_), ci in zip(layout, fr.channel_ops):
                    arr = run.arrays.get(ci)
                    cname = run.spec['ops'][ci]['name']
                    if arr is None:
                        widths.append(None)
                        continue
                    cast = _cast_of(run.spec, ci)
                    dtn = (cast or arr.dtype).name
                    want_code = schema.DTYPE_CODE.get(dtn)
                    want_dim = list(arr.shape[1:]) or [1]
                    if cast is not None:
                        run.obs['c08-cast'] += 1
                    if arr.ndim == 2 and arr.shape[1] == 1:
                        run.obs['c08-width1-2d'] += 1
                    if code != want_code:
                        run.v('C08', 'representation-code', 'repcode:' + dtn,
                              f'channel {cname!r}: data written as {dtn} (code {want_code}), declared {code}')
                    if dim != want_dim:
                        run.v('C08', 'dimension', 'dimension',
                              f'channel {cname!r}: per-row shape {want_dim}, DIMENSION {dim}')
                    if el_ is None or len(el_) < len(want_dim) or any(e < d for e, d in zip(el_, want_dim)):
                        run.v('C08', 'element-limit', 'element-limit',
                              f'channel {cname!r}: per-row shape {want_dim}, ELEMENT-LIMIT {el_}')
                    elif el_ != want_dim:
                        run.obs['c08-element-limit>dimension'] += 1
                    if code in rp66.FIXED_SIZE and dim:
                        widths.append(rp66.FIXED_SIZE[code] * int(np.prod(dim)))
                    else:
                        widths.append(None)
                if len(layout) != len(fr.channel_ops):
                    run.v('C08', 'channel-count', 'channel-count',
                          f'frame {fname!r}: {len(fr.channel_ops)} channels listed, CHANNELS has {len(layout)}')
                if all(x is not None for x in widths):
                    tot = sum(widths)
                    for x in recs:
                        if len(x.payload) != tot:
                            run.v('C08', 'record-length', 'record-length',
                                  f'frame {fname!r} row {x.frame_number}: slots occupy {len(x.payload)} bytes, '
                                  f'descriptors imply {tot}')
                            break
            # ---- C03 data
            if rows is not None:
                n = len(rows)
                nums = [x.frame_number for x in recs]
                if nums != list(range(1, n + 1)):
                    mech = 'frame-numbers'
                    if len(nums) != n:
                        mech = 'row-count'
                    run.v('C03', 'frame-numbering', mech,
                          f'frame {fname!r}: {n} input rows, frame numbers {nums[:12]}{"..." if len(nums) > 12 else ""} '
                          f'({len(nums)} records)')
                else:
                    for r, x in enumerate(recs):
                        want = b''.join(rows[r])
                        if x.payload != want:
                            # find channel
                            pos = 0
                            bad = None
                            for j, cb in enumerate(rows[r]):
                                if x.payload[pos:pos + len(cb)] != cb:
                                    bad = j
                                    break
                                pos += len(cb)
                            ci = fr.channel_ops[bad] if bad is not None and bad < len(fr.channel_ops) else None
                            arr = run.arrays.get(ci) if ci is not None else None
                            mech = 'slot-bytes'
                            if arr is not None:
                                got = x.payload[pos:pos + len(rows[r][bad])]
                                k = arr.dtype.itemsize
                                sw = b''.join(rows[r][bad][i:i + k][::-1] for i in range(0, len(rows[r][bad]), k))
                                if got == sw and k > 1:
                                    mech = 'slot-byteswapped:%s:%dd' % ('be' if arr.dtype.byteorder == '>' else 'le',
                                                                        arr.ndim)
                            run.v('C03', 'slot-bytes', mech,
                                  f'frame {fname!r} row {r + 1} channel #{bad}: expected {want[pos:pos + 16].hex()}.., '
                                  f'file {x.payload[pos:pos + 16].hex()}..')
                            break
                    run.obs['rows-compared'] += n
                if any(len(r.segments) > 1 for r in run.records if not r.explicit and r.type == 0):
                    run.obs['row-multi-segment'] += 1
            # ---- C13 index metadata
            check_index(run, lfi, fr, fobj, rows)


def _num(a):
    if a is None or a.absent or a.omitted or a.values is None or len(a.values) != 1:
        return None
    return a.values[0]


def check_index(run: Run, lfi, fr, fobj, rows) -> None:
    fop = run.spec['ops'][fr.op_index]
    fname = fop['name']
    fat = {}
    for kw, v in fop.get('attrs', {}).items():
        val, un, _ = expect.interpret('frame', kw, v)
        fat[kw] = val
    # later assignments
    for op, out in zip(run.spec['ops'], run.built.outcomes if run.built else []):
        if op['op'] == 'assign' and op['target'] == fr.op_index and op.get('part', 'value') == 'value' \
                and out[0] == 'ok':
            fat[op['kw']] = op['value']
    user = {k: fat.get(k) for k in ('index_min', 'index_max', 'spacing', 'direction')}
    imin, imax = _num(fobj.attrs.get('INDEX-MIN')), _num(fobj.attrs.get('INDEX-MAX'))
    sp, di = _num(fobj.attrs.get('SPACING')), _num(fobj.attrs.get('DIRECTION'))
    sp_code = fobj.attrs['SPACING'].code if 'SPACING' in fobj.attrs else None
    w = run.spec.get('write', {})
    f0 = w.get('from_idx') or 0
    t0 = w.get('to_idx')
    ci = fr.channel_ops[0] if fr.channel_ops else None
    arr = run.arrays.get(ci) if ci is not None else None
    if arr is None:
        return
    cast = _cast_of(run.spec, ci)
    if cast is not None and cast != arr.dtype:
        arr = arr.astype(cast)
    win = arr[f0:(arr.shape[0] if t0 is None else t0)]
    n = win.shape[0]
    run.obs['c13-frame'] += 1
    for k, got in (('index_min', imin), ('index_max', imax), ('spacing', sp), ('direction', di)):
        if user[k] is not None:
            run.obs['c13-user-supplied'] += 1     # equality itself is decided by C05's compare
            uv = expect.norm_scalar(user[k])
            ok = (got == uv) if isinstance(uv, str) else (got is not None and float(got) == float(uv))
            if not ok:
                run.v('C13', 'user-value-changed', 'user-value:' + k, f'frame {fname!r}: {k}={uv!r} supplied, decoded {got!r}')
    if fat.get('index_type') is None:
        run.obs['c13-no-index-type'] += 1
        if user['index_min'] is None and imin != 1:
            run.v('C13', 'row-index-min', 'row-index-min', f'frame {fname!r}: INDEX-MIN {imin!r}, expected 1')
        if user['index_max'] is None and imax != n:
            run.v('C13', 'row-index-max', 'row-index-max', f'frame {fname!r}: INDEX-MAX {imax!r}, {n} rows written')
        return
    if win.ndim != 1:
        return
    run.obs['c13-indexed'] += 1
    run.obs['c13-dtype-' + win.dtype.name] += 1
    isf = win.dtype.kind == 'f'
    vals = [float(x) for x in win] if isf else [int(x) for x in win]
    has_nan = isf and any(math.isnan(x) for x in vals)
    if has_nan:
        run.obs['c13-nan'] += 1
    else:
        lo, hi = min(vals), max(vals)
        if user['index_min'] is None and (imin is None or float(imin) != float(lo)):
            run.v('C13', 'index-min', 'index-min', f'frame {fname!r}: INDEX-MIN {imin!r}, data minimum {lo!r} over rows [{f0},{t0})')
        if user['index_max'] is None and (imax is None or float(imax) != float(hi)):
            run.v('C13', 'index-max', 'index-max', f'frame {fname!r}: INDEX-MAX {imax!r}, data maximum {hi!r} over rows [{f0},{t0})')
    if n == 1:
        run.obs['c13-single-row'] += 1
    if not isf and win.dtype.kind == 'u' and n > 1 and vals[1] < vals[0]:
        run.obs['c13-unsigned-decreasing'] += 1
    # differences: exact for integers, float64 for floats
    if isf:
        D = [vals[i + 1] - vals[i] for i in range(n - 1)]
        finite = all(math.isfinite(d) for d in D)
    else:
        D = [vals[i + 1] - vals[i] for i in range(n - 1)]
        finite = True
        if D and not isf:
            info = np.iinfo(win.dtype)
            if any(d > info.max or d < info.min for d in D):
                run.obs['c13-diff-beyond-dtype'] += 1
    if user['spacing'] is None:
        if n < 2 or not finite:
            # no difference exists (single row) or differences are not finite: SPACING, if present, must at least be a
            # number that could be "that signed difference" -- a NaN never is; an infinite spacing is accepted when
            # every difference is that same infinity
            if sp is not None and isinstance(sp, float) and not math.isfinite(sp) and n >= 2 and all(math.isfinite(x) for x in vals):
                # every index value is finite, their difference merely overflowed: the SPACING written is not "that difference"
                run.v('C13', 'spacing-not-finite', 'spacing-nonfinite:overflowed-difference',
                      f'frame {fname!r}: SPACING {sp!r} for the finite index values {vals[0]!r}, {vals[1]!r}, ..')
            elif sp is not None and isinstance(sp, float) and not math.isfinite(sp):
                same_inf = n >= 2 and all(d == D[0] for d in D) and sp == D[0]
                if not same_inf:
                    run.v('C13', 'spacing-not-finite', 'spacing-nonfinite:' + ('single-row' if n < 2 else 'nonfinite-diff'),
                          f'frame {fname!r}: SPACING {sp!r} with {n} rows')
        else:
            eps = 2.0 ** -23 if win.dtype == np.float32 else (2.0 ** -52 if isf else 0.0)
            if all(d == D[0] for d in D):
                run.obs['c13-uniform'] += 1
                if sp is None:
                    run.obs['c13-uniform-without-spacing'] += 1     # allowed: DIRECTION rule below then applies
                elif abs(float(sp) - float(D[0])) > abs(float(D[0])) * eps * 4:
                    run.v('C13', 'spacing-value', 'spacing-value:' + win.dtype.name,
                          f'frame {fname!r}: uniform difference {D[0]!r}, SPACING {sp!r}')
            else:
                sd = sorted(D)
                med = float(np.median(np.array(D, dtype=np.float64)))
                if med == 0:
                    dev = None
                else:
                    dev = max((1 - float(d) / med) ** 2 for d in D)
                if dev is None or dev >= 0.001 * 1.2:
                    run.obs['c13-nonuniform'] += 1
                    if sp is not None:
                        run.v('C13', 'spacing-present-nonuniform', 'spacing-nonuniform',
                              f'frame {fname!r}: differences {sd[0]!r}..{sd[-1]!r} (max deviation {dev}), SPACING {sp!r}')
                elif dev <= 0.001 * 0.8:
                    run.obs['c13-near-uniform'] += 1
                    if sp is None:
                        run.obs['c13-near-uniform-without-spacing'] += 1
                    elif not (float(sd[0]) - abs(float(sd[0])) * eps * 4 <= float(sp) <= float(sd[-1]) + abs(float(sd[-1])) * eps * 4):
                        run.v('C13', 'spacing-value', 'spacing-out-of-range',
                              f'frame {fname!r}: SPACING {sp!r} outside differences {sd[0]!r}..{sd[-1]!r}')
                else:
                    run.obs['c13-guard-band'] += 1
    if user['direction'] is None and n >= 2 and finite:
        inc = all(d > 0 for d in D)
        dec = all(d < 0 for d in D)
        if di is not None:
            run.obs['c13-direction-present'] += 1
            if di == 'INCREASING' and not all(d >= 0 for d in D) or di == 'DECREASING' and not all(d <= 0 for d in D) \
                    or di not in ('INCREASING', 'DECREASING'):
                run.v('C13', 'direction-wrong', 'direction-wrong', f'frame {fname!r}: DIRECTION {di!r}, differences {min(D)!r}..{max(D)!r}')
        elif sp is None and (inc or dec):
            run.v('C13', 'direction-missing', 'direction-missing',
                  f'frame {fname!r}: strictly monotonic index, neither SPACING nor DIRECTION written')


# ------------------------------------------------------------------------------------------------
# C09 order
# ------------------------------------------------------------------------------------------------

def check_c09(run: Run) -> None:
    decode(run)
    ensure_expected(run)
    if run.stage_error and run.stage_error[0] == 'semantic' and run.stage_error[1].kind == 'record-before-file-header':
        run.v('C09', 'record-before-header', 'record-before-header', str(run.stage_error[1]))
    if run.stage_error and run.stage_error[0] == 'semantic' and run.stage_error[1].kind == 'template-empty':
        # a set record holding nothing but its set component: an empty set was written
        run.v('C09', 'empty-set', 'empty-set', str(run.stage_error[1]))
    if run.lfs is None:
        return
    for lfi, dl in enumerate(run.lfs):
        el = run.exp[lfi] if lfi < len(run.exp) else None
        h = dl.header
        run.obs['c09-lf'] += 1
        if len(h.objects) != 1:
            run.v('C09', 'header-object-count', 'header-object-count', f'lf {lfi}: {len(h.objects)}')
            continue
        ho = h.objects[0]
        sn, hid = ho.attrs.get('SEQUENCE-NUMBER'), ho.attrs.get('ID')
        if el is not None:
            want_sn, want_id = str(el.seq).rjust(10), el.header_id.ljust(65)
            if sn is None or sn.values != [want_sn] or sn.code != 20:
                run.v('C09', 'header-sequence-number', 'header-sequence-number',
                      f'lf {lfi}: {sn.values if sn else None!r} != {want_sn!r}')
            if hid is None or hid.values != [want_id] or hid.code != 20:
                run.v('C09', 'header-id', 'header-id', f'lf {lfi}: {hid.values if hid else None!r} != {want_id!r}')
        seq = dl.sequence[1:]
        # origin sets immediately after header
        i = 0
        while i < len(seq) and seq[i][0] == 'E' and seq[i][1].type == 'ORIGIN':
            i += 1
        if i == 0:
            run.v('C09', 'origin-not-after-header', 'origin-not-after-header',
                  f'lf {lfi}: record after FILE-HEADER is {seq[0][1].type if seq and seq[0][0] == "E" else "IFLR/none"}')
        else:
            if i > 1:
                run.obs['c09-multi-origin-sets'] += 1
            do = seq[0][1].objects[0]
            fid = do.attrs.get('FILE-ID')
            if el is not None and (fid is None or fid.values != [el.header_id]):
                run.v('C09', 'defining-origin-file-id', 'defining-origin-file-id',
                      f'lf {lfi}: FILE-ID {fid.values if fid else None!r}, header id {el.header_id!r}')
            fsn = do.attrs.get('FILE-SET-NUMBER')
            if fsn is None or fsn.values is None or len(fsn.values) != 1:
                run.v('C09', 'file-set-number-missing', 'file-set-number-missing', f'lf {lfi}')
            if el is not None:
                eor = [o for o in el.objects if o.op == 'origin']
                if eor and do.name[2] != eor[0].name:
                    run.v('C09', 'defining-origin-identity', 'defining-origin-identity',
                          f'lf {lfi}: first ORIGIN object is {do.name}, first origin added was {eor[0].name!r}')
        defined = set()
        for k, x in dl.sequence:
            if k == 'E':
                run.obs['c09-set-nonempty-checked'] += 1
                if not x.objects:
                    run.v('C09', 'empty-set', 'empty-set', f'lf {lfi}: set {x.type}/{x.name} is written without any object')
                for o in x.objects:
                    defined.add((x.type,) + tuple(o.name))
            else:
                key = ('FRAME' if x.type == 0 else 'NO-FORMAT',) + tuple(x.ref)
                run.obs['c09-iflr-position-checked'] += 1
                if key not in defined:
                    run.v('C09', 'iflr-before-object', 'iflr-before-object',
                          f'lf {lfi}: data record (type {x.type}) refers to {key}, which is not defined before it')
                    break
        seen = set()
        data_started = False
        for k, x in seq[i:]:
            if k == 'E':
                if x.type == 'ORIGIN':
                    run.v('C09', 'origin-set-late', 'origin-set-late', f'lf {lfi}: ORIGIN set after other sets')
                if x.type == 'FILE-HEADER':
                    run.v('C09', 'second-header', 'second-header', f'lf {lfi}')
                key = (x.type, x.name)
                if key in seen:
                    run.v('C09', 'duplicate-set', 'duplicate-set', f'lf {lfi}: {key}')
                seen.add(key)
                if x.name is not None:
                    run.obs['c09-named-set'] += 1
                if data_started:
                    run.obs['c09-eflr-after-data'] += 1
            else:
                data_started = True


# ------------------------------------------------------------------------------------------------
# C16 no-format
# ------------------------------------------------------------------------------------------------

def check_c16(run: Run) -> None:
    match(run)
    if run.lfs is None:
        return
    for lfi, el in enumerate(run.exp):
        if lfi >= len(run.lfs):
            break
        dl = run.lfs[lfi]
        got = [(tuple(x.ref), x.payload) for x in dl.iflrs if x.type == 1]
        want = []
        ok = True
        for tgt, pb in el.nf_payloads:
            m = run.match.get(tgt)
            if m is None:
                ok = False
                break
            want.append((tuple(m[2].name), pb))
        if not ok:
            continue
        run.obs['c16-lf'] += 1
        for _, pb in want:
            n = len(pb)
            run.obs['c16-payload'] += 1
            if n == 0:
                run.obs['c16-empty'] += 1
            elif n < 8:
                run.obs['c16-short'] += 1
            if pb.endswith(b'\x01'):
                run.obs['c16-ends-01'] += 1
        if len(got) != len(want):
            run.v('C16', 'payload-count', 'payload-count', f'lf {lfi}: {len(want)} payloads added, {len(got)} NOFMT records')
            continue
        for k, (g, w_) in enumerate(zip(got, want)):
            if g[0] != w_[0]:
                run.v('C16', 'payload-object', 'payload-object', f'lf {lfi} payload {k}: under {g[0]}, expected {w_[0]}')
                break
            if g[1] != w_[1]:
                mech = 'payload-bytes'
                if len(g[1]) > len(w_[1]) and g[1][:len(w_[1])] == w_[1]:
                    mech = 'payload-appended'
                    if len(w_[1]) + len(rp66.enc_obname(*g[0])) < 12:
                        mech = 'payload-appended:body-lt-12'
                elif len(g[1]) < len(w_[1]) and w_[1][:len(g[1])] == g[1]:
                    mech = 'payload-truncated'
                elif sorted(x[1] for x in got) == sorted(x[1] for x in want):
                    mech = 'payload-order'
                run.v('C16', 'payload-bytes', mech,
                      f'lf {lfi} payload {k}: supplied {len(w_[1])} bytes {w_[1][:12].hex()}.., file {len(g[1])} bytes {g[1][:16].hex()}..')
                break


# ------------------------------------------------------------------------------------------------
# all
# ------------------------------------------------------------------------------------------------

def analyse(run: Run, props=None) -> None:
    """Run every oracle that applies to a successfully written file."""
    if run.data is None:
        return
    decode(run)
    check_c01(run)
    check_c02(run)
    check_c04(run)
    if run.built is not None:
        check_c05(run)
        check_c07(run)
        check_frames(run)
        check_c09(run)
        check_c16(run)
