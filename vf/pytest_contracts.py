"""pytest plugin: the repository's OWN test-suite executed with the harness-side contracts attached (DESIGN.md 9.4).

    cd <repo> && PYTHONPATH=/verif:/verif/.deps:<repo>/src WELL_ID_DLISWRITER_VERIF=1 VF_CONTRACTS_OUT=<file.json> \
        python -m pytest -p vf.pytest_contracts ...

Recording contracts only: the outcome of the tests is not changed.  At the end of the session the evaluation counts and
every recorded violation are written to VF_CONTRACTS_OUT."""
import json
import os


def pytest_configure(config):
    from vf import contracts
    contracts.attach()
    contracts.attach_codec()
    contracts.reset()


def pytest_sessionfinish(session, exitstatus):
    from vf import contracts
    out = os.environ.get('VF_CONTRACTS_OUT')
    res = {'evaluations': dict(contracts.EVALS), 'violations': contracts.drain(), 'exitstatus': int(exitstatus)}
    if out:
        json.dump(res, open(out, 'w'), indent=1, default=str)
    print('\n[vf contracts] evaluations:', sum(res['evaluations'].values()), 'violations:', len(res['violations']))
