"""Independent strict RP66 V1 reader (and reference primitive encoders).

Stdlib only.  Imports nothing from dliswriter, dlisio or numpy.  Written from the RP66 V1 text
(see DESIGN.md Appendix A).  Three layers: physical(), logical(), semantic (parse_eflr /
parse_iflr / decode_file).  Every rejection raises Malformed(kind, offset, detail).
"""
from __future__ import annotations
import struct
from dataclasses import dataclass, field
from typing import Any, Optional


class Malformed(Exception):
    def __init__(self, kind: str, offset: int = -1, detail: str = ''):
        super().__init__(f"{kind} @ {offset}: {detail}")
        self.kind = kind
        self.offset = offset
        self.detail = detail


# ------------------------------------------------------------------------------------------------
# physical layer
# ------------------------------------------------------------------------------------------------

@dataclass
class Segment:
    offset: int          # file offset of the segment header
    length: int          # declared length (header + body + pad)
    attr: int            # attribute byte
    type: int            # logical record type
    raw_body: bytes      # bytes after the header (incl. pad bytes)
    pad: int             # pad count (0 if padding bit clear)

    @property
    def explicit(self) -> bool: return bool(self.attr & 0x80)
    @property
    def predecessor(self) -> bool: return bool(self.attr & 0x40)
    @property
    def successor(self) -> bool: return bool(self.attr & 0x20)
    @property
    def body(self) -> bytes: return self.raw_body[:len(self.raw_body) - self.pad]


@dataclass
class VisibleRecord:
    offset: int
    length: int
    segments: list


@dataclass
class SUL:
    raw: bytes
    sequence_number: str    # 4 chars
    version: str            # 5 chars
    structure: str          # 6 chars
    max_record_length: str  # 5 chars
    set_identifier: str     # 60 chars


@dataclass
class Physical:
    sul: SUL
    vrs: list
    size: int

    @property
    def vr_end_offsets(self) -> list:
        return [v.offset + v.length for v in self.vrs]


def parse_sul(data: bytes) -> SUL:
    if len(data) < 80:
        raise Malformed('sul-short', 0, f'file has {len(data)} bytes')
    raw = data[:80]
    if any(b >= 0x80 or b < 0x20 for b in raw):
        raise Malformed('sul-not-ascii', 0, repr(raw))
    s = raw.decode('ascii')
    sul = SUL(raw, s[0:4], s[4:9], s[9:15], s[15:20], s[20:80])
    if not sul.sequence_number.strip().isdigit():
        raise Malformed('sul-seqnum', 0, repr(sul.sequence_number))
    if sul.sequence_number != sul.sequence_number.strip().rjust(4):
        raise Malformed('sul-seqnum-justify', 0, repr(sul.sequence_number))
    if sul.version != 'V1.00':
        raise Malformed('sul-version', 4, repr(sul.version))
    if sul.structure != 'RECORD':
        raise Malformed('sul-structure', 9, repr(sul.structure))
    if not sul.max_record_length.strip().isdigit():
        raise Malformed('sul-maxlen', 15, repr(sul.max_record_length))
    if sul.max_record_length != sul.max_record_length.strip().rjust(5):
        raise Malformed('sul-maxlen-justify', 15, repr(sul.max_record_length))
    return sul


def physical(data: bytes) -> Physical:
    """Parse SUL + visible records + segment headers, enforcing every physical rule."""
    sul = parse_sul(data)
    maxlen = int(sul.max_record_length)
    if maxlen != 0 and not (20 <= maxlen <= 16384):
        raise Malformed('sul-maxlen-range', 15, str(maxlen))
    limit = maxlen if maxlen else 16384
    pos = 80
    n = len(data)
    vrs = []
    while pos < n:
        if n - pos < 4:
            raise Malformed('vr-header-truncated', pos, f'{n - pos} trailing bytes')
        vlen, = struct.unpack_from('>H', data, pos)
        if data[pos + 2] != 0xFF or data[pos + 3] != 0x01:
            raise Malformed('vr-marker', pos, data[pos + 2:pos + 4].hex())
        if vlen % 2:
            raise Malformed('vr-odd', pos, str(vlen))
        if vlen < 20:
            raise Malformed('vr-too-short', pos, str(vlen))
        if vlen > limit:
            raise Malformed('vr-too-long', pos, f'{vlen} > {limit}')
        if pos + vlen > n:
            raise Malformed('vr-truncated', pos, f'declared {vlen}, available {n - pos}')
        end = pos + vlen
        spos = pos + 4
        segs = []
        while spos < end:
            if end - spos < 4:
                raise Malformed('segment-header-truncated', spos, '')
            slen, attr, typ = struct.unpack_from('>HBB', data, spos)
            if slen % 2:
                raise Malformed('segment-odd', spos, str(slen))
            if slen < 16:
                raise Malformed('segment-too-short', spos, str(slen))
            if spos + slen > end:
                raise Malformed('segment-overruns-vr', spos, f'{slen} > {end - spos}')
            if attr & 0x10:
                raise Malformed('segment-encrypted', spos, hex(attr))
            if attr & 0x08:
                raise Malformed('segment-encryption-packet', spos, hex(attr))
            if attr & 0x04:
                raise Malformed('segment-checksum', spos, hex(attr))
            if attr & 0x02:
                raise Malformed('segment-trailing-length', spos, hex(attr))
            raw_body = data[spos + 4:spos + slen]
            pad = 0
            if attr & 0x01:
                pad = raw_body[-1]
                if pad < 1 or pad > len(raw_body):
                    raise Malformed('segment-pad-count', spos, f'pad {pad}, body {len(raw_body)}')
            segs.append(Segment(spos, slen, attr, typ, raw_body, pad))
            spos += slen
        if not segs:
            raise Malformed('vr-empty', pos, '')
        vrs.append(VisibleRecord(pos, vlen, segs))
        pos = end
    return Physical(sul, vrs, n)


# ------------------------------------------------------------------------------------------------
# logical layer
# ------------------------------------------------------------------------------------------------

@dataclass
class LogicalRecord:
    explicit: bool
    type: int
    body: bytes
    segments: list          # Segment objects
    index: int = 0

    @property
    def offset(self) -> int: return self.segments[0].offset


def logical(phys: Physical) -> list:
    records = []
    cur: Optional[list] = None
    for vr in phys.vrs:
        for seg in vr.segments:
            if cur is None:
                if seg.predecessor:
                    raise Malformed('segment-orphan-continuation', seg.offset, 'predecessor bit on first segment')
                cur = [seg]
            else:
                if not seg.predecessor:
                    raise Malformed('segment-missing-predecessor-bit', seg.offset,
                                    'previous record still open (successor bit set)')
                if seg.explicit != cur[0].explicit:
                    raise Malformed('segment-structure-mismatch', seg.offset, '')
                if seg.type != cur[0].type:
                    raise Malformed('segment-type-mismatch', seg.offset, f'{seg.type} != {cur[0].type}')
                cur.append(seg)
            if not seg.successor:
                body = b''.join(s.body for s in cur)
                records.append(LogicalRecord(cur[0].explicit, cur[0].type, body, cur, len(records)))
                cur = None
    if cur is not None:
        raise Malformed('record-dangling', cur[0].offset, 'last record has successor bit but file ends')
    return records


# ------------------------------------------------------------------------------------------------
# primitive decoders
# ------------------------------------------------------------------------------------------------

class Cursor:
    def __init__(self, data: bytes, base: int = 0):
        self.d = data
        self.p = 0
        self.base = base

    def need(self, n: int, what: str) -> None:
        if self.p + n > len(self.d):
            raise Malformed('truncated-' + what, self.base + self.p, f'need {n}, have {len(self.d) - self.p}')

    def take(self, n: int, what: str = 'bytes') -> bytes:
        self.need(n, what)
        b = self.d[self.p:self.p + n]
        self.p += n
        return b

    def at_end(self) -> bool:
        return self.p >= len(self.d)

    def peek(self) -> int:
        self.need(1, 'peek')
        return self.d[self.p]


def dec_ushort(c): return c.take(1, 'ushort')[0]
def dec_unorm(c): return struct.unpack('>H', c.take(2, 'unorm'))[0]
def dec_ulong(c): return struct.unpack('>I', c.take(4, 'ulong'))[0]
def dec_sshort(c): return struct.unpack('>b', c.take(1, 'sshort'))[0]
def dec_snorm(c): return struct.unpack('>h', c.take(2, 'snorm'))[0]
def dec_slong(c): return struct.unpack('>i', c.take(4, 'slong'))[0]
def dec_fsingl(c): return struct.unpack('>f', c.take(4, 'fsingl'))[0]
def dec_fdoubl(c): return struct.unpack('>d', c.take(8, 'fdoubl'))[0]


def dec_uvari(c) -> int:
    b0 = c.peek()
    if b0 & 0x80 == 0:
        return c.take(1, 'uvari')[0]
    if b0 & 0xC0 == 0x80:
        return struct.unpack('>H', c.take(2, 'uvari'))[0] & 0x3FFF
    return struct.unpack('>I', c.take(4, 'uvari'))[0] & 0x3FFFFFFF


def uvari_width(c_or_byte) -> int:
    b0 = c_or_byte if isinstance(c_or_byte, int) else c_or_byte.peek()
    return 1 if b0 & 0x80 == 0 else (2 if b0 & 0xC0 == 0x80 else 4)


def _text(b: bytes, what: str, off: int) -> str:
    if any(x >= 0x80 for x in b):
        raise Malformed('non-ascii-' + what, off, repr(b[:40]))
    return b.decode('ascii')


def dec_ident(c) -> str:
    off = c.base + c.p
    n = c.take(1, 'ident-length')[0]
    return _text(c.take(n, 'ident'), 'ident', off)


def dec_ascii(c) -> str:
    off = c.base + c.p
    n = dec_uvari(c)
    return _text(c.take(n, 'ascii'), 'ascii', off)


def dec_dtime(c) -> tuple:
    off = c.base + c.p
    y, tzm, d, h, mn, s, ms = struct.unpack('>BBBBBBH', c.take(8, 'dtime'))
    tz, mo = tzm >> 4, tzm & 0x0F
    if tz > 2 or not 1 <= mo <= 12 or not 1 <= d <= 31 or h > 23 or mn > 59 or s > 59 or ms > 999:
        raise Malformed('dtime-field-range', off, str((y, tz, mo, d, h, mn, s, ms)))
    return (1900 + y, tz, mo, d, h, mn, s, ms)


def dec_origin(c) -> int: return dec_uvari(c)


def dec_obname(c) -> tuple:
    o = dec_uvari(c)
    cp = dec_ushort(c)
    nm = dec_ident(c)
    return (o, cp, nm)


def dec_objref(c) -> tuple:
    t = dec_ident(c)
    return (t,) + dec_obname(c)


def dec_attref(c) -> tuple:
    t = dec_ident(c)
    ob = dec_obname(c)
    lb = dec_ident(c)
    return (t,) + ob + (lb,)


def dec_status(c) -> int:
    off = c.base + c.p
    v = dec_ushort(c)
    if v not in (0, 1):
        raise Malformed('status-range', off, str(v))
    return v


def _fixed(fmt, name):
    size = struct.calcsize(fmt)
    def f(c): return struct.unpack(fmt, c.take(size, name))
    return f


DECODERS = {
    1: _fixed('>h', 'fshort'),          # FSHORT kept as raw 16 bits
    2: dec_fsingl,
    3: _fixed('>ff', 'fsing1'),
    4: _fixed('>fff', 'fsing2'),
    5: _fixed('>I', 'isingl'),
    6: _fixed('>I', 'vsingl'),
    7: dec_fdoubl,
    8: _fixed('>dd', 'fdoub1'),
    9: _fixed('>ddd', 'fdoub2'),
    10: _fixed('>ff', 'csingl'),
    11: _fixed('>dd', 'cdoubl'),
    12: dec_sshort, 13: dec_snorm, 14: dec_slong,
    15: dec_ushort, 16: dec_unorm, 17: dec_ulong,
    18: dec_uvari, 19: dec_ident, 20: dec_ascii, 21: dec_dtime,
    22: dec_origin, 23: dec_obname, 24: dec_objref, 25: dec_attref,
    26: dec_status, 27: dec_ident,
}
CODE_NAMES = {1: 'FSHORT', 2: 'FSINGL', 3: 'FSING1', 4: 'FSING2', 5: 'ISINGL', 6: 'VSINGL', 7: 'FDOUBL',
              8: 'FDOUB1', 9: 'FDOUB2', 10: 'CSINGL', 11: 'CDOUBL', 12: 'SSHORT', 13: 'SNORM', 14: 'SLONG',
              15: 'USHORT', 16: 'UNORM', 17: 'ULONG', 18: 'UVARI', 19: 'IDENT', 20: 'ASCII', 21: 'DTIME',
              22: 'ORIGIN', 23: 'OBNAME', 24: 'OBJREF', 25: 'ATTREF', 26: 'STATUS', 27: 'UNITS'}
CODE_BY_NAME = {v: k for k, v in CODE_NAMES.items()}
FIXED_SIZE = {1: 2, 2: 4, 3: 8, 4: 12, 5: 4, 6: 4, 7: 8, 8: 16, 9: 24, 10: 8, 11: 16, 12: 1, 13: 2, 14: 4,
              15: 1, 16: 2, 17: 4, 21: 8, 26: 1}


def decode_value(code: int, c: Cursor) -> Any:
    f = DECODERS.get(code)
    if f is None:
        raise Malformed('undefined-representation-code', c.base + c.p, str(code))
    return f(c)


def decode_exact(code: int, data: bytes) -> Any:
    """Decode one value which must consume `data` exactly."""
    c = Cursor(data)
    v = decode_value(code, c)
    if not c.at_end():
        raise Malformed('trailing-bytes-after-value', c.p, f'{len(data) - c.p} left')
    return v


# ------------------------------------------------------------------------------------------------
# reference primitive ENCODERS (independent statement of the standard, used by C06)
# ------------------------------------------------------------------------------------------------

class Unrepresentable(Exception):
    pass


def enc_uint(v: int, nbytes: int) -> bytes:
    if not isinstance(v, int) or isinstance(v, bool) and False:
        raise Unrepresentable(repr(v))
    if v < 0 or v >= 1 << (8 * nbytes):
        raise Unrepresentable(repr(v))
    return v.to_bytes(nbytes, 'big')


def enc_sint(v: int, nbytes: int) -> bytes:
    lim = 1 << (8 * nbytes - 1)
    if not isinstance(v, int) or v < -lim or v >= lim:
        raise Unrepresentable(repr(v))
    return v.to_bytes(nbytes, 'big', signed=True)


def enc_uvari(v: int) -> bytes:
    if not isinstance(v, int) or v < 0 or v >= 1 << 30:
        raise Unrepresentable(repr(v))
    if v < 1 << 7:
        return bytes([v])
    if v < 1 << 14:
        return (v | 0x8000).to_bytes(2, 'big')
    return (v | 0xC0000000).to_bytes(4, 'big')


def _ascii_bytes(s: str) -> bytes:
    try:
        return s.encode('ascii')
    except (UnicodeEncodeError, AttributeError):
        raise Unrepresentable(repr(s)[:60])


def enc_ident(s: str) -> bytes:
    b = _ascii_bytes(s)
    if len(b) > 255:
        raise Unrepresentable(f'ident of {len(b)} chars')
    return bytes([len(b)]) + b


def enc_ascii(s: str) -> bytes:
    b = _ascii_bytes(s)
    return enc_uvari(len(b)) + b


def enc_dtime(year, tz, month, day, hour, minute, second, ms) -> bytes:
    if not 1900 <= year <= 2155:
        raise Unrepresentable(f'year {year}')
    return bytes([year - 1900, (tz << 4) | month, day, hour, minute, second]) + ms.to_bytes(2, 'big')


def enc_obname(origin: int, copy: int, name: str) -> bytes:
    return enc_uvari(origin) + enc_uint(copy, 1) + enc_ident(name)


def enc_objref(typ: str, origin: int, copy: int, name: str) -> bytes:
    return enc_ident(typ) + enc_obname(origin, copy, name)


def enc_status(v: int) -> bytes:
    if v not in (0, 1):
        raise Unrepresentable(repr(v))
    return bytes([int(v)])


def enc_fsingl(v: float) -> bytes:
    try:
        return struct.pack('>f', v)
    except (OverflowError, struct.error, TypeError):
        raise Unrepresentable(repr(v))


def enc_fdoubl(v: float) -> bytes:
    try:
        return struct.pack('>d', v)
    except (struct.error, TypeError):
        raise Unrepresentable(repr(v))


# ------------------------------------------------------------------------------------------------
# semantic layer: EFLR
# ------------------------------------------------------------------------------------------------

# set types admitted per explicit record type (RP66 V1 Appendix A)
EFLR_TYPE_SETS = {
    0: {'FILE-HEADER'},
    1: {'ORIGIN', 'WELL-REFERENCE'},
    2: {'AXIS'},
    3: {'CHANNEL'},
    4: {'FRAME', 'PATH'},
    5: {'CALIBRATION', 'CALIBRATION-COEFFICIENT', 'CALIBRATION-MEASUREMENT', 'COMPUTATION', 'EQUIPMENT',
        'GROUP', 'PARAMETER', 'PROCESS', 'SPLICE', 'TOOL', 'ZONE'},
    6: {'COMMENT', 'MESSAGE'},
    7: {'UPDATE'},
    8: {'NO-FORMAT'},
    9: {'LONG-NAME'},
    10: {'ATTRIBUTE', 'CODE', 'EFLR', 'IFLR', 'OBJECT-TYPE', 'REPRESENTATION-CODE', 'SPECIFICATION',
         'UNIT-SYMBOL'},
    11: {'BASE-DICTIONARY', 'IDENTIFIER', 'LEXICON', 'OPTION'},
}


@dataclass
class Attr:
    label: str
    count: int
    code: int
    units: str
    values: Optional[list]      # None = no value (absent value)
    absent: bool = False        # absent-attribute component
    omitted: bool = False       # trailing attribute left out in the object
    explicit_count: bool = False
    count_width: int = 0        # bytes of the UVARI count if explicit
    descriptor: int = 0


@dataclass
class Obj:
    name: tuple                 # (origin, copy, ident)
    attrs: dict                 # label -> Attr (template order)
    n_components: int = 0


@dataclass
class EflrSet:
    type: str
    name: Optional[str]
    template: list              # list[Attr]
    objects: list               # list[Obj]
    record_type: int = -1
    role: int = 7


def _parse_attr_component(c: Cursor, desc: int, tmpl: Optional[Attr], in_template: bool) -> Attr:
    off = c.base + c.p - 1
    fmt = desc & 0x1F
    if tmpl is not None:
        a = Attr(tmpl.label, tmpl.count, tmpl.code, tmpl.units,
                 list(tmpl.values) if tmpl.values is not None else None)
    else:
        a = Attr('', 1, 19, '', None)
    a.descriptor = desc
    if fmt & 0x10:
        a.label = dec_ident(c)
    if fmt & 0x08:
        a.count_width = uvari_width(c)
        a.count = dec_uvari(c)
        a.explicit_count = True
    if fmt & 0x04:
        a.code = dec_ushort(c)
    if a.code not in DECODERS:
        raise Malformed('undefined-representation-code', off, str(a.code))
    if fmt & 0x02:
        a.units = dec_ident(c)
    if fmt & 0x01:
        vals = []
        for _ in range(a.count):
            vals.append(decode_value(a.code, c))
        a.values = vals
    elif fmt & 0x0C and not in_template:
        # count or code changed but value not restated: the inherited value no longer applies
        a.values = None if tmpl is None or tmpl.values is None else a.values
    return a


def parse_eflr(body: bytes, record_type: int = -1, base: int = 0) -> EflrSet:
    c = Cursor(body, base)
    if c.at_end():
        raise Malformed('eflr-empty', base, '')
    d = c.take(1, 'set-descriptor')[0]
    role = d >> 5
    if role in (5, 6):
        raise Malformed('unsupported-role', base, f'set role {role}')
    if role != 7:
        raise Malformed('eflr-first-component-not-set', base, hex(d))
    if d & 0x07:
        raise Malformed('set-descriptor-reserved-bits', base, hex(d))
    if not d & 0x10:
        raise Malformed('set-without-type', base, hex(d))
    stype = dec_ident(c)
    if not stype:
        raise Malformed('set-type-empty', base, '')
    sname = dec_ident(c) if d & 0x08 else None
    es = EflrSet(stype, sname, [], [], record_type, role)
    if record_type in EFLR_TYPE_SETS and stype not in EFLR_TYPE_SETS[record_type]:
        raise Malformed('set-type-not-admitted-by-record-type', base, f'{stype} in record type {record_type}')
    # template
    labels = set()
    while True:
        if c.at_end():
            break
        d = c.peek()
        role = d >> 5
        if role == 3:
            break
        c.take(1)
        if role not in (1, 2):
            raise Malformed('template-bad-role', c.base + c.p - 1, hex(d))
        a = _parse_attr_component(c, d, None, True)
        if not d & 0x10 or a.label == '':
            raise Malformed('template-label-missing', c.base + c.p, hex(d))
        if a.label in labels:
            raise Malformed('template-label-duplicate', c.base + c.p, a.label)
        labels.add(a.label)
        es.template.append(a)
    if not es.template:
        raise Malformed('template-empty', c.base + c.p, '')
    # objects
    while not c.at_end():
        off = c.base + c.p
        d = c.take(1)[0]
        if d >> 5 != 3:
            raise Malformed('expected-object-component', off, hex(d))
        if not d & 0x10:
            raise Malformed('object-without-name', off, hex(d))
        if d & 0x0F:
            raise Malformed('object-descriptor-reserved-bits', off, hex(d))
        name = dec_obname(c)
        attrs = {}
        i = 0
        ncomp = 0
        while not c.at_end() and (c.peek() >> 5) != 3:
            off = c.base + c.p
            d = c.take(1)[0]
            role = d >> 5
            if i >= len(es.template):
                raise Malformed('object-more-attributes-than-template', off, f'object {name}')
            t = es.template[i]
            if role == 0:
                if d & 0x1F:
                    raise Malformed('absent-attribute-with-characteristics', off, hex(d))
                attrs[t.label] = Attr(t.label, t.count, t.code, t.units, None, absent=True, descriptor=d)
            elif role == 1:
                if d & 0x10:
                    raise Malformed('object-attribute-restates-label', off, hex(d))
                attrs[t.label] = _parse_attr_component(c, d, t, False)
            elif role == 2:
                raise Malformed('invariant-attribute-in-object', off, hex(d))
            else:
                raise Malformed('unsupported-role', off, f'role {role} inside object')
            i += 1
            ncomp += 1
        while i < len(es.template):
            t = es.template[i]
            attrs[t.label] = Attr(t.label, t.count, t.code, t.units,
                                  list(t.values) if t.values is not None else None, omitted=True)
            i += 1
        es.objects.append(Obj(name, attrs, ncomp))
    if not es.objects:
        raise Malformed('set-without-objects', base, stype)
    return es


# ------------------------------------------------------------------------------------------------
# semantic layer: IFLR and whole file
# ------------------------------------------------------------------------------------------------

@dataclass
class Iflr:
    type: int
    ref: tuple                  # OBNAME
    frame_number: Optional[int]
    payload: bytes              # slots (type 0) / raw bytes (type 1)
    index: int = 0


def parse_iflr(body: bytes, typ: int, base: int = 0) -> Iflr:
    c = Cursor(body, base)
    ref = dec_obname(c)
    fn = None
    if typ == 0:
        fn = dec_uvari(c)
    elif typ == 127:
        pass
    elif typ != 1:
        raise Malformed('iflr-unknown-type', base, str(typ))
    return Iflr(typ, ref, fn, body[c.p:])


@dataclass
class LogicalFileDecoded:
    header: EflrSet
    sets: list                  # all EFLR sets in order (incl. header)
    iflrs: list                 # Iflr in order
    sequence: list              # ('E', EflrSet) / ('I', Iflr) in record order
    first_record: int = 0


@dataclass
class Decoded:
    phys: Physical
    records: list
    lfs: list


def decode_records(records: list) -> list:
    """records: list[LogicalRecord] -> list[LogicalFileDecoded]."""
    lfs = []
    cur = None
    for r in records:
        if r.explicit:
            es = parse_eflr(r.body, r.type, r.offset)
            if es.type == 'FILE-HEADER':
                cur = LogicalFileDecoded(es, [es], [], [('E', es)], r.index)
                lfs.append(cur)
                continue
            if cur is None:
                raise Malformed('record-before-file-header', r.offset, es.type)
            cur.sets.append(es)
            cur.sequence.append(('E', es))
        else:
            if cur is None:
                raise Malformed('record-before-file-header', r.offset, 'IFLR')
            it = parse_iflr(r.body, r.type, r.offset)
            it.index = r.index
            cur.iflrs.append(it)
            cur.sequence.append(('I', it))
    return lfs


def decode_file(data: bytes) -> Decoded:
    ph = physical(data)
    recs = logical(ph)
    return Decoded(ph, recs, decode_records(recs))


def dtime_to_utc_ms(t: tuple, local_offset_s: int = 0) -> int:
    """(year, tz, month, day, h, m, s, ms) -> milliseconds since 1900-01-01 for tz==2 (GMT)."""
    import datetime as _dt
    y, tz, mo, d, h, mn, s, ms = t
    base = _dt.datetime(y, mo, d, h, mn, s) - _dt.datetime(1900, 1, 1)
    return (base.days * 86400 + base.seconds) * 1000 + ms
