"""Runner: ./check <Cnn> [quick|thorough] [--replay file]   (DESIGN.md 3.5, 3.6, 4)."""
from __future__ import annotations
import hashlib
import json
import os
import shutil
import subprocess
import sys
import tempfile
import time
from collections import Counter

ROOT = os.path.dirname(os.path.dirname(os.path.abspath(__file__)))
PY = '/venv/bin/python'
REPO = os.environ.get('VF_REPO', '/repo')
NSHARDS = int(os.environ.get('VF_SHARDS', '16'))


def ensure_deps():
    deps = os.path.join(ROOT, '.deps')
    if not os.path.isdir(os.path.join(deps, 'icontract')):
        subprocess.run([PY, '-m', 'pip', 'install', '-q', '--no-index', '--find-links', '/opt/veriftools/wheels',
                        '--target', deps, 'icontract'], stdout=subprocess.DEVNULL, stderr=subprocess.DEVNULL)
    return deps


def worker_env(scratch, seed):
    env = dict(os.environ)
    env['WELL_ID_DLISWRITER_VERIF'] = '1'
    env['PYTHONPATH'] = os.pathsep.join([os.path.join(REPO, 'src'), ROOT, os.path.join(ROOT, '.deps')])
    env['VF_REPO_SRC'] = os.path.join(REPO, 'src')
    env['PYTHONPYCACHEPREFIX'] = os.path.join(scratch, 'pyc')
    env['PYTHONHASHSEED'] = '0'
    env['PYTHONDONTWRITEBYTECODE'] = '1'
    env.setdefault('TZ', 'UTC')
    env['VF_SCRATCH_BASE'] = scratch
    env['OMP_NUM_THREADS'] = '1'
    env['OPENBLAS_NUM_THREADS'] = '1'
    env['HDF5_USE_FILE_LOCKING'] = 'FALSE'
    return env


def meta_env(env, META, tier):
    for k, v in META.get('env', {}).get(tier, {}).items():
        env[k] = str(v)
    return env


def load_known():
    p = os.path.join(ROOT, 'known_findings.json')
    if not os.path.exists(p):
        return []
    return json.load(open(p)).get('findings', [])


def classify(prop, v, known):
    """Return the open known-finding entry matching this violation, or None."""
    for k in known:
        if k.get('status') != 'open' or k['property'] != prop:
            continue
        m = k['match']
        if 'kind' in m and m['kind'] != v.get('kind'):
            continue
        if 'mech' in m and m['mech'] != v.get('mech'):
            continue
        if 'mechs' in m and v.get('mech') not in m['mechs']:
            continue
        if 'mech_prefix' in m and not str(v.get('mech', '')).startswith(m['mech_prefix']):
            continue
        return k
    return None


from vf.worker import THOROUGH_ROUNDS  # noqa: E402


def main(argv=None):
    argv = list(sys.argv[1:] if argv is None else argv)
    if not argv:
        print('usage: check <Cnn> [quick|thorough] [--replay file]')
        return 64
    prop = argv[0].upper()
    tier = os.environ.get('VERIF_TIER', 'quick')
    replay = None
    i = 1
    while i < len(argv):
        if argv[i] in ('quick', 'thorough'):
            tier = argv[i]
        elif argv[i] == '--replay':
            replay = argv[i + 1]
            i += 1
        i += 1
    seed = int(os.environ.get('VERIF_SEED', '0') or 0)
    ensure_deps()
    t0 = time.time()
    scratch = tempfile.mkdtemp(prefix=f'vf-{prop}-')
    try:
        if replay:
            return do_replay(prop, replay, scratch, seed)
        return do_check(prop, tier, seed, scratch, t0)
    finally:
        shutil.rmtree(scratch, ignore_errors=True)


def do_replay(prop, path, scratch, seed):
    env = worker_env(scratch, seed)
    code = ("import json,sys\nfrom vf import harness\nharness.quiet()\nfrom vf.worker import load_check\n"
            f"rep=json.load(open({path!r}))\nmod=load_check({prop!r})\n"
            "out=mod.run_case(rep['case'])\nharness.cleanup()\n"
            "vs=[v for v in out.get('violations',[])]\n"
            "print(json.dumps({'violations':vs,'obs':out.get('obs',{})},indent=1,default=str))\n"
            "sys.exit(1 if vs else 0)\n")
    r = subprocess.run([PY, '-c', code], env=env, cwd=ROOT)
    if r.returncode == 1:
        print(f'VIOLATION property={prop} replay={path}')
    return r.returncode


def do_check(prop, tier, seed, scratch, t0):
    sys.path.insert(0, ROOT)
    import importlib
    meta = importlib.import_module(f'vf.checks.{prop.lower()}')   # only for META (no dliswriter import at top)
    META = meta.META
    budget = META.get('budget_s', {}).get(tier)
    timeout = META.get('timeout_s', {}).get(tier, 1500 if tier == 'quick' else 7200)
    env = meta_env(worker_env(scratch, seed), META, tier)
    procs = []
    nshards = min(NSHARDS, META.get('max_shards', NSHARDS))
    for s in range(nshards):
        out = os.path.join(scratch, f'shard{s}.json')
        cmd = [PY, '-m', 'vf.worker', prop, tier, str(seed), str(s), str(nshards), out]
        if budget:
            cmd.append(str(budget))
        log = open(os.path.join(scratch, f'shard{s}.log'), 'w')
        procs.append((s, out, log, subprocess.Popen(cmd, env=env, cwd=ROOT, stdout=log, stderr=log)))
    inconclusive = []
    merged = {'evals': 0, 'violations': [], 'obs': Counter(), 'sigs': set(), 'samples': [], 'harness_errors': [],
              'strata': Counter(), 'cases': 0, 'skipped_for_time': 0, 'extra': Counter()}
    deadline = t0 + timeout
    for s, out, log, p in procs:
        try:
            p.wait(timeout=max(1, deadline - time.time()))
        except subprocess.TimeoutExpired:
            p.kill()
            p.wait()
            inconclusive.append(f'shard {s} watchdog fired after {timeout}s')
        log.close()
        if p.returncode != 0 or not os.path.exists(out):
            tail = open(log.name).read()[-1500:]
            inconclusive.append(f'shard {s} exited {p.returncode}: {tail}')
            continue
        r = json.load(open(out))
        merged['evals'] += r['evals']
        merged['cases'] += r['cases']
        merged['skipped_for_time'] += r['skipped_for_time']
        merged['violations'].extend(r['violations'])
        merged['obs'].update(r['obs'])
        merged['strata'].update(r['strata'])
        merged['sigs'].update(r['sigs'])
        merged['samples'].extend(r['samples'][:1])
        merged['harness_errors'].extend(r['harness_errors'])
        merged['extra'].update(r.get('extra', {}))
    known = load_known()
    new, kf = {}, {}
    for v in merged['violations']:
        if v.get('prop', prop) != prop:
            continue
        k = classify(prop, v, known)
        key = (v.get('kind'), v.get('mech'))
        if k is not None:
            kf.setdefault(k['id'], (k, v))
        else:
            new.setdefault(key, v)
    # regression reproducers of open findings that were expected but did not fire are only noted
    lines = []
    for kid, (k, v) in sorted(kf.items()):
        lines.append(f"KNOWN-FINDING: property={prop} {k['id']}: {k['what']}")
    rep_dir = os.path.join(os.environ.get('VF_REPLAY_DIR') or os.path.join(ROOT, 'replays'), prop)
    vio_lines = []
    for key, v in sorted(new.items(), key=lambda kv: str(kv[0])):
        os.makedirs(rep_dir, exist_ok=True)
        h = hashlib.sha1(json.dumps([key, v.get('case', {}).get('stratum'), v.get('case', {}).get('index')],
                                    default=str).encode()).hexdigest()[:10]
        path = os.path.join(rep_dir, f'{seed}-{h}.json')
        json.dump({'property': prop, 'seed': seed, 'tier': tier, 'violation': {k_: v[k_] for k_ in v if k_ != 'case'},
                   'case': v.get('case')}, open(path, 'w'), indent=1, default=str)
        vio_lines.append(f'VIOLATION property={prop} replay={path}')
        vio_lines.append(f'  kind={v.get("kind")} mech={v.get("mech")} :: {str(v.get("detail"))[:300]}')
    missing = [c for c in META.get('required_obs', {}).get(tier, META.get('required_obs', {}).get('quick', []))
               if merged['obs'].get(c, 0) == 0]
    if missing:
        inconclusive.append('deciding observation classes never observed: ' + ', '.join(missing))
    if merged['harness_errors']:
        inconclusive.append(f"{len(merged['harness_errors'])} harness errors, first: "
                            + merged['harness_errors'][0]['error'] + ' ' + merged['harness_errors'][0]['trace'][-600:])
    if merged['evals'] == 0:
        inconclusive.append('no evaluations')
    wall = time.time() - t0
    ev = {
        'property_id': prop, 'tier': tier, 'seed': seed, 'level': META['level'],
        'coverage': {
            'evaluations': merged['evals'],
            'distinct_nontrivial': len(merged['sigs']),
            'rule': META['rule'],
            'samples': merged['samples'][:4] or ['(none)'],
            'cases': merged['cases'],
            'skipped_for_time': merged['skipped_for_time'],
            'strata': dict(merged['strata']),
            'seeded_rounds': (int(os.environ.get('VF_THOROUGH_ROUNDS', 0)) or THOROUGH_ROUNDS.get(prop, 1)) if tier == 'thorough' else 1,
            'observed_classes': dict(sorted(merged['obs'].items())),
            'required_classes': META.get('required_obs', {}).get(tier, []),
            'extra': dict(merged['extra']),
            'exhaustive_windows': META.get('exhaustive_windows', {}).get(tier, []),
            'known_findings_seen': sorted(kf),
            'verdict': 'violated' if new else ('inconclusive' if inconclusive else 'held-on-observed'),
            'inconclusive_reasons': [x[:500] for x in inconclusive],
        },
        'assumptions': META.get('assumptions', []),
        'wall_s': round(wall, 2),
        'violations': len(new),
    }
    evdir = os.environ.get('VF_EVIDENCE_DIR') or os.path.join(ROOT, 'evidence')
    os.makedirs(evdir, exist_ok=True)
    json.dump(ev, open(os.path.join(evdir, f'{prop}.json'), 'w'), indent=1, default=str)
    for l in lines:
        print(l)
    for l in vio_lines:
        print(l)
    print(f'{prop} {tier} seed={seed}: {merged["evals"]} evaluations, {len(merged["sigs"])} distinct non-trivial, '
          f'{len(new)} new violations, {len(kf)} known findings, {wall:.1f}s')
    if new:
        return 1
    if inconclusive:
        for r in inconclusive:
            print(f'INCONCLUSIVE property={prop} reason={r[:700]}')
        return 2
    return 0


if __name__ == '__main__':
    sys.exit(main())
