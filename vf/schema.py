"""Hand-written schema of the 21 user-creatable object types + FILE-HEADER.

Written from RP66 V1 chapters 5-6 and the docstrings of LogicalFile.add_* -- deliberately NOT
imported from dliswriter.logical_record.eflr_types: agreement between two independent statements
of the schema is what is being monitored (C04, C05).

Per type:  add  -- name of the LogicalFile method
           set  -- RP66 set type
           rtype-- explicit logical record type
           attrs-- list of (keyword, LABEL, kind, multivalued)

kinds:
  text        ASCII (20)                           ident       IDENT (19)
  uvari/unorm/ushort   unsigned integer, fixed code
  fdoubl      float, FDOUBL                        num         int or float (any numeric code)
  int         integer (any integer code)
  dtime       DTIME                                dtf         DTIME or float
  status      STATUS 0/1
  ref:<type>  OBNAME reference to object of <type> ('*' = any)
  objref      OBJREF reference to any object
  lname       OBNAME ref to LONG-NAME object or ASCII text
  mnum        text or number (str -> ASCII, int/float -> numeric)
  dim         list of UVARI
"""

U = 'units_ok'

TYPES = {
    'origin': dict(add='add_origin', set='ORIGIN', rtype=1, attrs=[
        ('file_set_name', 'FILE-SET-NAME', 'ident', False),
        ('file_set_number', 'FILE-SET-NUMBER', 'uvari', False),
        ('file_number', 'FILE-NUMBER', 'uvari', False),
        ('file_type', 'FILE-TYPE', 'ident', False),
        ('product', 'PRODUCT', 'text', False),
        ('version', 'VERSION', 'text', False),
        ('programs', 'PROGRAMS', 'text', True),
        ('creation_time', 'CREATION-TIME', 'dtime', False),
        ('order_number', 'ORDER-NUMBER', 'text', False),
        ('descent_number', 'DESCENT-NUMBER', 'unorm', False),
        ('run_number', 'RUN-NUMBER', 'unorm', False),
        ('well_id', 'WELL-ID', 'text', False),
        ('well_name', 'WELL-NAME', 'text', False),
        ('field_name', 'FIELD-NAME', 'text', False),
        ('producer_code', 'PRODUCER-CODE', 'unorm', False),
        ('producer_name', 'PRODUCER-NAME', 'text', False),
        ('company', 'COMPANY', 'text', False),
        ('name_space_name', 'NAME-SPACE-NAME', 'ident', False),
        ('name_space_version', 'NAME-SPACE-VERSION', 'uvari', False),
    ], derived=['FILE-ID']),
    'axis': dict(add='add_axis', set='AXIS', rtype=2, attrs=[
        ('axis_id', 'AXIS-ID', 'ident', False),
        ('coordinates', 'COORDINATES', 'mnum', True),
        ('spacing', 'SPACING', 'num', False),
    ]),
    'calibration': dict(add='add_calibration', set='CALIBRATION', rtype=5, attrs=[
        ('calibrated_channels', 'CALIBRATED-CHANNELS', 'ref:channel', True),
        ('uncalibrated_channels', 'UNCALIBRATED-CHANNELS', 'ref:channel', True),
        ('coefficients', 'COEFFICIENTS', 'ref:calibration_coefficient', True),
        ('measurements', 'MEASUREMENTS', 'ref:calibration_measurement', True),
        ('parameters', 'PARAMETERS', 'ref:parameter', True),
        ('method', 'METHOD', 'ident', False),
    ]),
    'calibration_coefficient': dict(add='add_calibration_coefficient', set='CALIBRATION-COEFFICIENT', rtype=5,
                                    attrs=[
        ('label', 'LABEL', 'ident', False),
        ('coefficients', 'COEFFICIENTS', 'num', True),
        ('references', 'REFERENCES', 'num', True),
        ('plus_tolerances', 'PLUS-TOLERANCES', 'num', True),
        ('minus_tolerances', 'MINUS-TOLERANCES', 'num', True),
    ]),
    'calibration_measurement': dict(add='add_calibration_measurement', set='CALIBRATION-MEASUREMENT', rtype=5,
                                    attrs=[
        ('phase', 'PHASE', 'ident', False),
        ('measurement_source', 'MEASUREMENT-SOURCE', 'objref', False),
        ('measurement_type', 'TYPE', 'ident', False),
        ('dimension', 'DIMENSION', 'dim', True),
        ('axis', 'AXIS', 'ref:axis', True),
        ('measurement', 'MEASUREMENT', 'num', True),
        ('sample_count', 'SAMPLE-COUNT', 'int', False),
        ('maximum_deviation', 'MAXIMUM-DEVIATION', 'num', True),
        ('standard_deviation', 'STANDARD-DEVIATION', 'num', True),
        ('begin_time', 'BEGIN-TIME', 'dtf', False),
        ('duration', 'DURATION', 'num', False),
        ('reference', 'REFERENCE', 'num', True),
        ('standard', 'STANDARD', 'num', True),
        ('plus_tolerance', 'PLUS-TOLERANCE', 'num', True),
        ('minus_tolerance', 'MINUS-TOLERANCE', 'num', True),
    ]),
    'channel': dict(add='add_channel', set='CHANNEL', rtype=3, attrs=[
        ('long_name', 'LONG-NAME', 'lname', False),
        ('properties', 'PROPERTIES', 'ident', True),
        ('units', 'UNITS', 'ident', False),
        ('dimension', 'DIMENSION', 'dim', True),
        ('axis', 'AXIS', 'ref:axis', True),
        ('element_limit', 'ELEMENT-LIMIT', 'dim', True),
        ('source', 'SOURCE', 'objref', False),
        ('minimum_value', 'MINIMUM-VALUE', 'fdoubl', True),
        ('maximum_value', 'MAXIMUM-VALUE', 'fdoubl', True),
    ], derived=['REPRESENTATION-CODE']),
    'comment': dict(add='add_comment', set='COMMENT', rtype=6, attrs=[
        ('text', 'TEXT', 'text', True),
    ]),
    'computation': dict(add='add_computation', set='COMPUTATION', rtype=5, attrs=[
        ('long_name', 'LONG-NAME', 'lname', False),
        ('properties', 'PROPERTIES', 'ident', True),
        ('dimension', 'DIMENSION', 'dim', True),
        ('axis', 'AXIS', 'ref:axis', True),
        ('zones', 'ZONES', 'ref:zone', True),
        ('values', 'VALUES', 'num', True),
        ('source', 'SOURCE', 'ref:*', False),
    ]),
    'equipment': dict(add='add_equipment', set='EQUIPMENT', rtype=5, attrs=[
        ('trademark_name', 'TRADEMARK-NAME', 'text', False),
        ('status', 'STATUS', 'status', False),
        ('eq_type', 'TYPE', 'ident', False),
        ('serial_number', 'SERIAL-NUMBER', 'ident', False),
        ('location', 'LOCATION', 'ident', False),
        ('height', 'HEIGHT', 'num', False),
        ('length', 'LENGTH', 'num', False),
        ('minimum_diameter', 'MINIMUM-DIAMETER', 'num', False),
        ('maximum_diameter', 'MAXIMUM-DIAMETER', 'num', False),
        ('volume', 'VOLUME', 'num', False),
        ('weight', 'WEIGHT', 'num', False),
        ('hole_size', 'HOLE-SIZE', 'num', False),
        ('pressure', 'PRESSURE', 'num', False),
        ('temperature', 'TEMPERATURE', 'num', False),
        ('vertical_depth', 'VERTICAL-DEPTH', 'num', False),
        ('radial_drift', 'RADIAL-DRIFT', 'num', False),
        ('angular_drift', 'ANGULAR-DRIFT', 'num', False),
    ]),
    'frame': dict(add='add_frame', set='FRAME', rtype=4, attrs=[
        ('description', 'DESCRIPTION', 'text', False),
        ('channels', 'CHANNELS', 'ref:channel', True),
        ('index_type', 'INDEX-TYPE', 'ident', False),
        ('direction', 'DIRECTION', 'ident', False),
        ('spacing', 'SPACING', 'num', False),
        ('encrypted', 'ENCRYPTED', 'ushort', False),
        ('index_min', 'INDEX-MIN', 'num', False),
        ('index_max', 'INDEX-MAX', 'num', False),
    ]),
    'group': dict(add='add_group', set='GROUP', rtype=5, attrs=[
        ('description', 'DESCRIPTION', 'text', False),
        ('object_list', 'OBJECT-LIST', 'objref', True),
        ('group_list', 'GROUP-LIST', 'ref:group', True),
    ], later_only=[('object_type', 'OBJECT-TYPE', 'ident', False)]),
    'long_name': dict(add='add_long_name', set='LONG-NAME', rtype=9, attrs=[
        ('general_modifier', 'GENERAL-MODIFIER', 'text', True),
        ('quantity', 'QUANTITY', 'text', False),
        ('quantity_modifier', 'QUANTITY-MODIFIER', 'text', True),
        ('altered_form', 'ALTERED-FORM', 'text', False),
        ('entity', 'ENTITY', 'text', False),
        ('entity_modifier', 'ENTITY-MODIFIER', 'text', True),
        ('entity_number', 'ENTITY-NUMBER', 'text', False),
        ('entity_part', 'ENTITY-PART', 'text', False),
        ('entity_part_number', 'ENTITY-PART-NUMBER', 'text', False),
        ('generic_source', 'GENERIC-SOURCE', 'text', False),
        ('source_part', 'SOURCE-PART', 'text', True),
        ('source_part_number', 'SOURCE-PART-NUMBER', 'text', True),
        ('conditions', 'CONDITIONS', 'text', True),
        ('standard_symbol', 'STANDARD-SYMBOL', 'text', False),
        ('private_symbol', 'PRIVATE-SYMBOL', 'text', False),
    ]),
    'message': dict(add='add_message', set='MESSAGE', rtype=6, attrs=[
        ('message_type', 'TYPE', 'ident', False),
        ('time', 'TIME', 'dtf', False),
        ('borehole_drift', 'BOREHOLE-DRIFT', 'num', False),
        ('vertical_depth', 'VERTICAL-DEPTH', 'num', False),
        ('radial_drift', 'RADIAL-DRIFT', 'num', False),
        ('angular_drift', 'ANGULAR-DRIFT', 'num', False),
        ('text', 'TEXT', 'text', True),
    ]),
    'no_format': dict(add='add_no_format', set='NO-FORMAT', rtype=8, attrs=[
        ('consumer_name', 'CONSUMER-NAME', 'ident', False),
        ('description', 'DESCRIPTION', 'text', False),
    ]),
    'parameter': dict(add='add_parameter', set='PARAMETER', rtype=5, attrs=[
        ('long_name', 'LONG-NAME', 'lname', False),
        ('dimension', 'DIMENSION', 'dim', True),
        ('axis', 'AXIS', 'ref:axis', True),
        ('zones', 'ZONES', 'ref:zone', True),
        ('values', 'VALUES', 'mnum', True),
    ]),
    'path': dict(add='add_path', set='PATH', rtype=4, attrs=[
        ('frame_type', 'FRAME-TYPE', 'ref:frame', False),
        ('well_reference_point', 'WELL-REFERENCE-POINT', 'ref:well_reference_point', False),
        ('value', 'VALUE', 'ref:channel', True),
        ('borehole_depth', 'BOREHOLE-DEPTH', 'num', False),
        ('vertical_depth', 'VERTICAL-DEPTH', 'num', False),
        ('radial_drift', 'RADIAL-DRIFT', 'num', False),
        ('angular_drift', 'ANGULAR-DRIFT', 'num', False),
        ('time', 'TIME', 'num', False),
        ('depth_offset', 'DEPTH-OFFSET', 'num', False),
        ('measure_point_offset', 'MEASURE-POINT-OFFSET', 'num', False),
        ('tool_zero_offset', 'TOOL-ZERO-OFFSET', 'num', False),
    ]),
    'process': dict(add='add_process', set='PROCESS', rtype=5, attrs=[
        ('description', 'DESCRIPTION', 'text', False),
        ('trademark_name', 'TRADEMARK-NAME', 'text', False),
        ('version', 'VERSION', 'text', False),
        ('properties', 'PROPERTIES', 'ident', True),
        ('status', 'STATUS', 'ident', False),
        ('input_channels', 'INPUT-CHANNELS', 'ref:channel', True),
        ('output_channels', 'OUTPUT-CHANNELS', 'ref:channel', True),
        ('input_computations', 'INPUT-COMPUTATIONS', 'ref:computation', True),
        ('output_computations', 'OUTPUT-COMPUTATIONS', 'ref:computation', True),
        ('parameters', 'PARAMETERS', 'ref:parameter', True),
        ('comments', 'COMMENTS', 'text', True),
    ]),
    'splice': dict(add='add_splice', set='SPLICE', rtype=5, attrs=[
        ('output_channel', 'OUTPUT-CHANNEL', 'ref:channel', False),
        ('input_channels', 'INPUT-CHANNELS', 'ref:channel', True),
        ('zones', 'ZONES', 'ref:zone', True),
    ]),
    'tool': dict(add='add_tool', set='TOOL', rtype=5, attrs=[
        ('description', 'DESCRIPTION', 'text', False),
        ('trademark_name', 'TRADEMARK-NAME', 'text', False),
        ('generic_name', 'GENERIC-NAME', 'text', False),
        ('parts', 'PARTS', 'ref:equipment', True),
        ('status', 'STATUS', 'status', False),
        ('channels', 'CHANNELS', 'ref:channel', True),
        ('parameters', 'PARAMETERS', 'ref:parameter', True),
    ]),
    'well_reference_point': dict(add='add_well_reference_point', set='WELL-REFERENCE', rtype=1, attrs=[
        ('permanent_datum', 'PERMANENT-DATUM', 'text', False),
        ('vertical_zero', 'VERTICAL-ZERO', 'text', False),
        ('permanent_datum_elevation', 'PERMANENT-DATUM-ELEVATION', 'fdoubl', False),
        ('above_permanent_datum', 'ABOVE-PERMANENT-DATUM', 'fdoubl', False),
        ('magnetic_declination', 'MAGNETIC-DECLINATION', 'fdoubl', False),
        ('coordinate_1_name', 'COORDINATE-1-NAME', 'text', False),
        ('coordinate_1_value', 'COORDINATE-1-VALUE', 'fdoubl', False),
        ('coordinate_2_name', 'COORDINATE-2-NAME', 'text', False),
        ('coordinate_2_value', 'COORDINATE-2-VALUE', 'fdoubl', False),
        ('coordinate_3_name', 'COORDINATE-3-NAME', 'text', False),
        ('coordinate_3_value', 'COORDINATE-3-VALUE', 'fdoubl', False),
    ]),
    'zone': dict(add='add_zone', set='ZONE', rtype=5, attrs=[
        ('description', 'DESCRIPTION', 'text', False),
        ('domain', 'DOMAIN', 'ident', False),
        ('maximum', 'MAXIMUM', 'dtf', False),
        ('minimum', 'MINIMUM', 'dtf', False),
    ]),
}

SET_TO_OP = {v['set']: k for k, v in TYPES.items()}

# kinds whose attributes accept user units (RP66: numeric / dtime-or-number / generic values)
UNITS_KINDS = {'num', 'fdoubl', 'uvari', 'unorm', 'ushort', 'int', 'dtime', 'dtf', 'mnum'}
# numeric representation codes
FLOAT_CODES = {1, 2, 3, 4, 5, 6, 7, 8, 9, 10, 11}
INT_CODES = {12, 13, 14, 15, 16, 17, 18}
INT_RANGE = {12: (-2**7, 2**7 - 1), 13: (-2**15, 2**15 - 1), 14: (-2**31, 2**31 - 1),
             15: (0, 2**8 - 1), 16: (0, 2**16 - 1), 17: (0, 2**32 - 1), 18: (0, 2**30 - 1)}

DTYPE_CODE = {'int8': 12, 'int16': 13, 'int32': 14, 'uint8': 15, 'uint16': 16, 'uint32': 17,
              'float32': 2, 'float64': 7}


def attr_table(op: str) -> dict:
    """keyword -> (LABEL, kind, multi) including later-only attributes."""
    t = TYPES[op]
    d = {kw: (lab, kind, multi) for kw, lab, kind, multi in t['attrs']}
    for kw, lab, kind, multi in t.get('later_only', []):
        d[kw] = (lab, kind, multi)
    return d


# attribute name on the item object for a keyword (for the 'later' assignment route)
ITEM_ATTR = {('equipment', 'eq_type'): '_type', ('message', 'message_type'): '_type',
             ('calibration_measurement', 'measurement_type'): 'type'}


def item_attr_name(op: str, kw: str) -> str:
    return ITEM_ATTR.get((op, kw), kw)
