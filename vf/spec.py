"""Spec (plain JSON data) -> real dliswriter API calls.  See DESIGN.md section 3.2.

build() replays the ops of a Spec against the public API only (DLISFile, add_logical_file, add_*,
.value/.units assignment, write) and records per op the returned handle or the exception.
"""
from __future__ import annotations
import datetime as _dt
import hashlib
import os
import numpy as np

from . import schema

# ------------------------------------------------------------------------------------------------
# arrays
# ------------------------------------------------------------------------------------------------

SPECIALS = {
    'f4': [0x00000000, 0x80000000, 0x7f800000, 0xff800000, 0x7fc00000, 0x7fc00001, 0xffc12345, 0x7f800001,
           0x00000001, 0x807fffff, 0x7f7fffff, 0xff7fffff, 0x3f800000, 0xbf800000],
    'f8': [0x0000000000000000, 0x8000000000000000, 0x7ff0000000000000, 0xfff0000000000000,
           0x7ff8000000000000, 0x7ff8000000000001, 0xfff8123456789abc, 0x7ff0000000000001,
           0x0000000000000001, 0x800fffffffffffff, 0x7fefffffffffffff, 0xffefffffffffffff,
           0x3ff0000000000000, 0xbff0000000000000],
}


#: floats that are out of range for some of the types a cast may be declared to (and in range for others)
OOR_VALUES = [300.0, -1.0, 256.0, -129.0, 70000.0, -40000.0, 65536.0, 5e9, -3e9, 4294967296.0, 1e10, -2147483649.0, 2147483648.0,
              1e15, 9.3e18, -9.3e18, 1e19, 2e19, 1e39, -1e300, 3.5e38, float('nan'), float('inf'), float('-inf'), 255.9, -0.9, 127.5,
              -128.9, 65535.5, 4294967295.5]


def _special_values(dt: np.dtype):
    k = dt.kind + str(dt.itemsize)
    if k in SPECIALS:
        u = np.array(SPECIALS[k], dtype='u%d' % dt.itemsize)
        return u.view(dt.newbyteorder('='))
    info = np.iinfo(dt)
    vals = [info.min, info.max, 0, 1, info.max - 1, info.min + 1]
    if info.min < 0:
        vals += [-1, -2]
    return np.array(vals, dtype=dt.newbyteorder('='))


def make_array(a: dict) -> np.ndarray:
    """Materialise an ArraySpec.  Returns the array to hand to dliswriter; `.base_buffer` is not
    attached (numpy forbids); use array_base() for the whole underlying buffer."""
    dt = np.dtype(a['dtype'])
    shape = tuple(a['shape'])
    n = int(np.prod(shape)) if shape else 1
    fill = a.get('fill', {'kind': 'pos'})
    kind = fill.get('kind', 'pos')
    native = dt.newbyteorder('=')
    if kind == 'pos':
        # position coded: unique-ish value per (tag, flat index)
        tag = int(fill.get('tag', 0))
        idx = np.arange(n, dtype=np.int64)
        if dt.kind == 'f':
            vals = (tag * 1000.0 + idx * 0.5 + 0.25).astype(native)
        else:
            info = np.iinfo(dt)
            span = int(info.max) - int(info.min) + 1
            vals = ((tag * 37 + idx * 3 + 1) % span + int(info.min)).astype(native)
    elif kind == 'rand':
        rng = np.random.default_rng(int(fill.get('seed', 0)))
        raw = rng.bytes(n * dt.itemsize)
        vals = np.frombuffer(raw, dtype=native).copy()
    elif kind == 'special':
        sv = _special_values(dt)
        off = int(fill.get('seed', 0))
        vals = sv[(np.arange(n) + off) % len(sv)]
    elif kind == 'oor':
        # ordinary floats with, at the flat positions `bad_at`, values beyond the range of the narrower integer / float
        # types (of moderate magnitude: the conversions numpy performs without any floating-point flag among them)
        vals = (np.arange(n, dtype=np.float64) % 50 + 1.0)
        for pos, k in fill.get('bad_at', []):
            vals[pos % n] = OOR_VALUES[k % len(OOR_VALUES)]
        for pos, v in fill.get('bad_values', []):   # explicit values (exact range boundaries)
            vals[pos % n] = v
        with np.errstate(over='ignore'):
            vals = vals.astype(native)
    elif kind == 'lin':
        start, step = fill.get('start', 0), fill.get('step', 1)
        vals = (np.arange(n, dtype=np.float64) * step + start)
        if dt.kind != 'f':
            vals = np.rint(vals).astype(np.int64)
        vals = vals.astype(native)
    elif kind == 'seq':
        vals = np.array(fill['values'], dtype=native)
        if 'bits' in fill:
            vals = np.array(fill['bits'], dtype='u%d' % dt.itemsize).view(native)
    elif kind == 'safe':
        # values exactly representable in every supported dtype (for casts): 0..100 integers
        tag = int(fill.get('tag', 0))
        vals = ((np.arange(n) * 7 + tag) % 101).astype(native)
    else:
        raise ValueError(kind)
    vals = vals.reshape(shape).astype(dt)   # value-preserving conversion to the requested byte order
    layout = a.get('layout', 'C')
    if layout == 'C':
        arr = np.ascontiguousarray(vals)
    elif layout == 'F':
        arr = np.asfortranarray(vals)
    elif layout == 'strided':
        big = np.zeros((shape[0] * 2,) + shape[1:], dtype=dt)
        big[1::2] = _canary(dt, big[1::2].shape)
        big[::2] = vals
        arr = big[::2]
    elif layout == 'view':
        big = np.zeros((shape[0] + 4,) + shape[1:], dtype=dt)
        big[:2] = _canary(dt, big[:2].shape)
        big[-2:] = _canary(dt, big[-2:].shape)
        big[2:-2] = vals
        arr = big[2:-2]
    elif layout == 'readonly':
        arr = np.ascontiguousarray(vals)
        arr.flags.writeable = False
    else:
        raise ValueError(layout)
    if a.get('slice') is not None:
        lo, hi = a['slice']
        arr = arr[lo:hi]
    return arr


def _canary(dt, shape):
    n = int(np.prod(shape))
    raw = (b'\xA5\x5A\xC3\x3C' * (n * dt.itemsize // 4 + 1))[:n * dt.itemsize]
    return np.frombuffer(raw, dtype=dt).reshape(shape)


def array_base(arr: np.ndarray) -> np.ndarray:
    b = arr
    while isinstance(b.base, np.ndarray):
        b = b.base
    return b


def digest_array(arr: np.ndarray) -> str:
    b = array_base(arr)
    h = hashlib.sha256()
    def layout(x):
        # the dtype in full: field names, field dtypes and offsets are part of what the caller owns
        dt_ = x.dtype
        f = None if dt_.names is None else [(n_, str(dt_.fields[n_][0]), dt_.fields[n_][1]) for n_ in dt_.names]
        return str((dt_.str, dt_.itemsize, f, x.shape, x.strides, bool(x.flags.writeable)))
    h.update(layout(b).encode())
    h.update(np.ascontiguousarray(b).view(np.uint8).tobytes() if b.size else b'')
    h.update(layout(arr).encode())
    return h.hexdigest()


def row_bytes_be(arr: np.ndarray, r: int) -> bytes:
    """Big-endian image of row r by pure byte manipulation (no numpy conversion)."""
    row = np.ascontiguousarray(arr[r:r + 1])      # a slice keeps the dtype's byte order (a scalar would not)
    raw = row.tobytes()     # C order, array's own byte order
    k = arr.dtype.itemsize
    bo = arr.dtype.byteorder
    little = bo == '<' or (bo in '=|' and np.little_endian and k > 1)
    if k == 1 or not little:
        return raw
    return b''.join(raw[i:i + k][::-1] for i in range(0, len(raw), k))


# ------------------------------------------------------------------------------------------------
# value materialisation
# ------------------------------------------------------------------------------------------------

def mat(v, built):
    """Spec value -> Python object to pass to dliswriter."""
    if isinstance(v, dict):
        if '$ref' in v:
            return built.handles.get(v['$ref'])
        if '$origin_of' in v:
            return built.handles[v['$origin_of']].origin_reference
        if '$dt' in v:
            return make_datetime(v)
        if '$enum' in v:
            from dliswriter import enums
            cls, member = v['$enum'].split('.')
            return getattr(getattr(enums, cls), member)
        if '$setup' in v:
            from dliswriter import AttrSetup
            inner = {k: mat(x, built) for k, x in v['$setup'].items()}
            if v.get('route') == 'AttrSetup':
                return AttrSetup(**inner)
            return inner
        if '$tuple' in v:
            return tuple(mat(x, built) for x in v['$tuple'])
        if '$np' in v:
            dt, x = v['$np']
            return np.dtype(dt).type(x)
        if '$nparr' in v:
            dt, x = v['$nparr']
            return np.array(x, dtype=dt)
        if '$float' in v:
            return float(v['$float'])     # 'nan', 'inf', '-inf', '-0.0'
        if '$bytes' in v:
            return bytes.fromhex(v['$bytes'])
        if '$dtype' in v:
            if v.get('as') == 'type':
                return getattr(np, v['$dtype'])
            if v.get('as') in ('dtype>', 'dtype<', 'dtype='):      # a dtype INSTANCE that carries an explicit byte order
                return np.dtype(v['$dtype']).newbyteorder(v['as'][-1])
            return np.dtype(v['$dtype'])
        if '$obj' in v:
            return object()
        raise ValueError(f'unknown value spec {v}')
    if isinstance(v, list):
        return [mat(x, built) for x in v]
    return v


# ------------------------------------------------------------------------------------------------
# build
# ------------------------------------------------------------------------------------------------

class Built:
    def __init__(self):
        self.df = None
        self.lfs = []
        self.handles = {}       # op index -> returned object
        self.outcomes = []      # per op: ('ok',) | ('exc', type name, message)
        self.arrays = {}        # channel op index -> ndarray handed over (or to be handed at write)
        self.error = None       # exception constructing DLISFile / logical files
        self.payload_refs = {}  # nf_data op index -> the payload object handed over
        self.caller_reuses_lists = False
        self.shared_lists = {}  # keyword -> the one list object the caller uses for it (caller_reuses_lists)

    def ok(self, i):
        return self.outcomes[i][0] == 'ok'


def _exc(e):
    return ('exc', type(e).__name__, str(e)[:300])


class RepeatedHour(_dt.tzinfo):
    """A zone in which EVERY wall-clock time occurs twice (as during the hour in which daylight saving time ends): two hours
    ahead of UTC the first time (fold=0), one hour ahead the second time (fold=1)."""

    def utcoffset(self, d_):
        return _dt.timedelta(hours=1 if getattr(d_, 'fold', 0) else 2)

    def dst(self, d_):
        return _dt.timedelta(hours=0 if getattr(d_, 'fold', 0) else 1)

    def tzname(self, d_):
        return 'RH'


#: ONE zone object for every date-time of that zone, as with zoneinfo.ZoneInfo / dateutil zones (date-times sharing their
#: tzinfo object are compared and hashed by their wall-clock fields, ignoring `fold`)
_RH = RepeatedHour()


def make_datetime(v: dict) -> _dt.datetime:
    """{'$dt': [y, mo, d, h, mi, s, us], 'tz': minutes | None | 'RH', 'fold': 0|1} -> datetime."""
    y, mo, d, h, mi, s, us = v['$dt']
    tz = v.get('tz')
    tzinfo = None if tz is None else (_RH if tz == 'RH' else _dt.timezone(_dt.timedelta(minutes=tz)))
    return _dt.datetime(y, mo, d, h, mi, s, us, tzinfo=tzinfo, fold=int(v.get('fold', 0)))


def build(spec: dict) -> Built:
    from dliswriter import DLISFile
    b = Built()
    sul = spec.get('sul', {})
    try:
        kw = {('sul_sequence_number' if k == 'sequence_number' else k): v for k, v in sul.items() if k != 'as_object'}
        if sul.get('as_object'):
            # the user hands in their own StorageUnitLabel instance (public API: DLISFile(storage_unit_label=...))
            from dliswriter import StorageUnitLabel
            lab = StorageUnitLabel(kw.get('set_identifier', 'MAIN-STORAGE-UNIT'), kw.get('sul_sequence_number', 1),
                                   kw.get('max_record_length', 8192))
            b.df = DLISFile(storage_unit_label=lab)
        else:
            b.df = DLISFile(**kw)
        for lfs in spec.get('lfs', [{}]):
            if lfs.get('share_header_of') is not None:
                # the FileHeaderItem of an earlier logical file handed in again (public API: add_logical_file(file_header=...))
                b.lfs.append(b.df.add_logical_file(file_header=b.lfs[lfs['share_header_of']].file_header))
            elif lfs.get('as_object'):
                # the user hands in their own FileHeaderItem (public API: add_logical_file(file_header=...))
                from dliswriter import eflr_types
                fh = eflr_types.FileHeaderItem(lfs.get('fh_id', 'FILE-HEADER'), parent=eflr_types.FileHeaderSet(),
                                               sequence_number=lfs.get('fh_sequence_number', 1),
                                               identifier=lfs.get('fh_identifier', '0'))
                b.lfs.append(b.df.add_logical_file(file_header=fh))
            else:
                b.lfs.append(b.df.add_logical_file(**{k: v for k, v in lfs.items() if k != 'as_object'}))
    except Exception as e:      # noqa
        b.error = _exc(e)
        return b
    source = spec.get('write', {}).get('source', 'inline')
    b.caller_reuses_lists = bool(spec.get('caller_reuses_lists'))
    for i, op in enumerate(spec['ops']):
        try:
            run_op(b, i, op, source)
            b.outcomes.append(('ok',))
        except HarnessError:
            raise
        except Exception as e:  # noqa
            b.outcomes.append(_exc(e))
    if spec.get('caller_reuses_lists') != 'keeps-last':
        for shared in b.shared_lists.values():
            shared.clear()              # the caller is done with its lists
    return b


class HarnessError(Exception):
    """A failure of the harness itself (e.g. a value spec that cannot be materialised): never a verdict."""


def mat_checked(v, built):
    try:
        return mat(v, built)
    except Exception as e:  # noqa
        raise HarnessError(f'cannot materialise {str(v)[:120]}: {type(e).__name__}: {e}')


def run_op(b: Built, i: int, op: dict, source: str = 'inline') -> None:
    if op.get('in_hc'):
        # the call is made inside `with high_compatibility_mode():`; an exception it raises leaves the block
        from dliswriter import high_compatibility_mode
        with high_compatibility_mode():
            run_op(b, i, {k: v for k, v in op.items() if k != 'in_hc'}, source)
        return
    kind = op['op']
    if kind in schema.TYPES:
        lf = b.lfs[op.get('lf', 0)]
        kwargs = {k: mat_checked(v, b) for k, v in op.get('attrs', {}).items()}
        if b.caller_reuses_lists:
            # the caller keeps ONE list per keyword, refills it (clear / extend) for every call and empties it in the end:
            # what the library was given is the list's content at the time of the call
            for k_, v_ in list(kwargs.items()):
                if isinstance(v_, (list, tuple)):
                    shared = b.shared_lists.setdefault(k_, [])
                    shared.clear()
                    shared.extend(v_)
                    kwargs[k_] = shared
        if op.get('set_name') is not None:
            kwargs['set_name'] = op['set_name']
        if 'origin_reference' in op and op['origin_reference'] is not None:
            orf = op['origin_reference']
            if isinstance(orf, dict) and '$origin_of' in orf:
                orf = b.handles[orf['$origin_of']].origin_reference
            kwargs['origin_reference'] = orf
        if kind == 'channel':
            if op.get('data') is not None:
                arr = make_array(op['data'])
                b.arrays[i] = arr
                if source == 'inline' or op.get('force_inline'):
                    kwargs['data'] = arr
            if op.get('dataset_name') is not None:
                kwargs['dataset_name'] = op['dataset_name']
            if op.get('cast_dtype') is not None:
                kwargs['cast_dtype'] = mat_checked(op['cast_dtype'], b)
        name = mat_checked(op['name'], b) if isinstance(op['name'], dict) else op['name']
        b.handles[i] = getattr(lf, schema.TYPES[kind]['add'])(name, **kwargs)
    elif kind == 'nf_data':
        lf = b.lfs[op.get('lf', 0)]
        payload = op['payload']
        if isinstance(payload, dict):
            payload = bytes.fromhex(payload['$bytes'])
            if op.get('as') == 'bytearray':
                payload = bytearray(payload)
        if op.get('via') == 'data-attribute':
            # the documented other way: the record is created first, its payload put into the `data` attribute afterwards
            b.handles[i] = lf.add_no_format_frame_data(b.handles[op['target']], b'' if isinstance(payload, (bytes, bytearray)) else '')
            b.handles[i].data = payload
        else:
            b.handles[i] = lf.add_no_format_frame_data(b.handles[op['target']], payload)
        b.payload_refs[i] = payload          # the caller's own object (a bytearray can be re-used by the caller afterwards)
    elif kind == 'assign':
        tgt = b.handles[op['target']]
        an = schema.item_attr_name(op['target_op'], op['kw'])
        val = mat_checked(op['value'], b)
        part = op.get('part', 'value')
        via = op.get('via')
        if via == 'set_attributes' and not (part == 'value' and val is None):
            # the other public route for a later assignment: item.set_attributes(name=value | {'units': ..} | AttrSetup(..))
            if part == 'value':
                tgt.set_attributes(**{an: val})
            elif op.get('via_form') == 'AttrSetup':
                from dliswriter import AttrSetup
                tgt.set_attributes(**{an: AttrSetup(units=val)})
            else:
                tgt.set_attributes(**{an: {'units': val}})
        else:
            setattr(getattr(tgt, an), part, val)
    elif kind == 'setattr':
        setattr(b.handles[op['target']], op['field'], mat_checked(op['value'], b))
    elif kind == 'set_header':
        # lf.file_header.header_id / .sequence_number re-assigned (and the defining origin's FILE-ID kept in step)
        lf = b.lfs[op.get('lf', 0)]
        setattr(lf.file_header, op['field'], op['value'])
        if op['field'] == 'header_id' and lf.defining_origin is not None:
            lf.defining_origin.file_id.value = op['value']
    elif kind == 'set_sul':
        setattr(b.df.storage_unit_label, op['field'], op['value'])
    elif kind == 'inplace':
        # the list an attribute's .value hands out is edited in place (no setter involved)
        v = getattr(b.handles[op['target']], schema.item_attr_name(op['target_op'], op['kw'])).value
        if not isinstance(v, list):
            raise HarnessError(f'in-place edit of a non-list value {type(v).__name__}')
        if op['how'] == 'pop':
            v.pop()
        elif op['how'] == 'dup':
            v.append(v[0])
        elif op['how'] == 'clear':
            v.clear()
        else:
            raise HarnessError(op['how'])
    elif kind == 'scribble':
        # the caller re-uses the buffer it handed over as a no-format payload (in place: other content, other length)
        buf = b.payload_refs.get(op['target'])
        if isinstance(buf, bytearray):
            buf[:] = b'\xEE' * (len(buf) // 2 + 1)
    elif kind == 'noop':
        pass
    elif kind == 'rename_set':
        # the set an object lives in is given another name after creation (public attribute of the set)
        b.handles[op['target']].parent.set_name = op['value']
    else:
        raise ValueError(f'unknown op {kind}')


def dataset_key(spec: dict, i: int) -> str:
    op = spec['ops'][i]
    return op.get('dataset_name') or op['name']


def make_write_data(spec: dict, b: Built, scratch: str):
    """Build the `data=` argument for the configured source kind (None for inline)."""
    w = spec.get('write', {})
    source = w.get('source', 'inline')
    if source == 'inline':
        return None
    chans = [(i, op) for i, op in enumerate(spec['ops'])
             if op['op'] == 'channel' and i in b.arrays and not op.get('force_inline')]
    order = list(range(len(chans)))
    perm = w.get('perm_seed')
    if perm is not None:
        import random
        random.Random(perm).shuffle(order)
    extra = w.get('extra', 0)
    items = []
    for j in order:
        i, op = chans[j]
        # the name the library itself looks the channel's data up by (NAME, NAME__1, ... for repeated channel names)
        key = op.get('dataset_name') or getattr(b.handles.get(i), 'dataset_name', None) or op['name']
        items.append((key, b.arrays[i]))
    if w.get('sort_fields'):
        items.sort(key=lambda kv: kv[0])        # data sets in the order of their own names, whatever the channels' order
    n0 = items[0][1].shape[0] if items else 1
    for e in range(extra):
        items.insert((e * 2) % (len(items) + 1), (f'__extra{e}', np.arange(n0 * 2, dtype='<f4').reshape(n0, 2)))
    if source == 'dict':
        return dict(items)
    if source == 'struct':
        fields = []
        for key, arr in items:
            fields.append((key, arr.dtype) if arr.ndim == 1 else (key, arr.dtype, arr.shape[1:]))
        variant = w.get('struct_variant')
        if variant == 'aligned':
            # C-struct-like layout with padding between fields (itemsize > sum of field sizes)
            sa = np.zeros(n0, dtype=np.dtype(fields, align=True))
        elif variant == 'view':
            # the fields are a multi-field selection of a wider table: a view with gaps (hidden columns) in every row
            wide = [('__hidden_a', '<u2')]
            for f in fields:
                wide.append(f)
                wide.append(('__hidden_%d' % len(wide), '|u1', (3,)))
            table = np.zeros(n0, dtype=np.dtype(wide))
            for nm in table.dtype.names:
                if nm.startswith('__hidden'):
                    table[nm] = 0xA5
            sa = table[[f[0] for f in fields]]
        else:
            sa = np.zeros(n0, dtype=np.dtype(fields))
        for key, arr in items:
            sa[key] = arr
        return sa
    if source == 'hdf5':
        import h5py
        path = os.path.join(scratch, w.get('h5name', 'data.h5'))
        # (written under another name and moved into place: a file that was at this path before is REPLACED, not overwritten)
        with h5py.File(path + '.new', 'w') as f:
            for key, arr in items:
                f.create_dataset(key.lstrip('/'), data=np.ascontiguousarray(arr), dtype=arr.dtype)
        os.replace(path + '.new', path)
        if w.get('paths_as') == 'Path':
            import pathlib
            return pathlib.Path(path)
        return path
    raise ValueError(source)


def do_write(spec: dict, b: Built, path: str, scratch: str, data='__auto__', **override):
    """Call DLISFile.write with the spec's options.  Returns ('ok',) or ('exc', type, msg)."""
    w = dict(spec.get('write', {}))
    w.update(override)
    kwargs = {}
    if 'input_chunk_size' in w:
        kwargs['input_chunk_size'] = w['input_chunk_size']
    ocs = w.get('output_chunk_size', 2 ** 16)
    kwargs['output_chunk_size'] = ocs
    if w.get('from_idx') is not None:
        kwargs['from_idx'] = w['from_idx']
    if w.get('to_idx') is not None:
        kwargs['to_idx'] = w['to_idx']
    if w.get('idx_as'):
        # the window bounds as numpy integers (of possibly different widths), e.g. the results of numpy computations
        fa, ta = w['idx_as']
        if fa and 'from_idx' in kwargs:
            kwargs['from_idx'] = np.dtype(fa).type(kwargs['from_idx'])
        if ta and 'to_idx' in kwargs:
            kwargs['to_idx'] = np.dtype(ta).type(kwargs['to_idx'])
    try:
        if isinstance(data, str) and data == '__auto__':
            data = make_write_data(spec, b, scratch)
        b.write_data = data
        if data is not None:
            kwargs['data'] = data
        if w.get('paths_as') == 'Path':
            import pathlib
            path = pathlib.Path(path)       # the output file name as a path object
        if w.get('hc'):
            # the write (only) happens in high-compatibility mode
            from dliswriter import high_compatibility_mode
            with high_compatibility_mode():
                b.df.write(path, **kwargs)
        else:
            b.df.write(path, **kwargs)
        return ('ok',)
    except Exception as e:  # noqa
        return _exc(e)
