"""Syscall-level observation of one write (strace): what the process really did to the target file and to the HDF5 source.

`trace(spec)` runs vf.syscase under `strace -f -y` and returns the events between the two markers:
  opens   [(path, flags-set, fd or -errno)]
  writes  [(path, nbytes returned, syscall)]        (write / pwrite64 / writev / pwritev on a traced path)
  closes  [path]
  others  [(syscall, path)]                          (ftruncate / truncate / rename* / unlink* / lseek to an absolute offset)
restricted to the target path and the source path.  Oracles for C10 and C19 are in `judge_target` / `judge_source`."""
from __future__ import annotations
import json
import os
import re
import shutil
import subprocess
import sys

from . import harness
from .syscase import BEGIN, END

STRACE = shutil.which('strace')
_CALL = re.compile(r'^(\d+)\s+(\w+)\((.*)\)\s+=\s+(-?\d+|\?)(.*)$')
_FDPATH = re.compile(r'^(\d+)<([^>]*)>')


def available() -> bool:
    return STRACE is not None


def trace(spec: dict, timeout=180):
    d = harness.scratch_dir()
    harness._counter[0] += 1
    base = os.path.join(d, f'sys{harness._counter[0]}')
    sp, out, res, log = base + '.json', base + '.dlis', base + '.res', base + '.strace'
    json.dump(spec, open(sp, 'w'))
    cmd = [STRACE, '-f', '-qq', '-y', '-s', '0', '-o', log, '-e',
           'trace=open,openat,creat,write,pwrite64,writev,pwritev,ftruncate,truncate,rename,renameat,renameat2,unlink,unlinkat,'
           'close,lseek,stat,newfstatat,statx',
           sys.executable, '-m', 'vf.syscase', sp, out, res]
    r = subprocess.run(cmd, env=dict(os.environ), timeout=timeout, stdout=subprocess.DEVNULL, stderr=subprocess.PIPE)
    if r.returncode != 0 or not os.path.exists(res):
        raise RuntimeError('traced process failed: ' + r.stderr.decode()[-600:])
    info = json.load(open(res))
    data = None
    if os.path.exists(out):
        with open(out, 'rb') as f:
            data = f.read()
    src = info.get('source_path')
    ev = parse(log, out, src)
    for p in (sp, out, res, log):
        if os.path.exists(p):
            os.remove(p)
    ev.update({'write': tuple(info['write']) if info.get('write') else None, 'build_error': info.get('build_error'),
               'data': data, 'target': out, 'source': src})
    return ev


def parse(log: str, target: str, source):
    paths = {target: 'target'}
    if source:
        paths[source] = 'source'
    inside = False
    seen_begin = seen_end = False
    opens, writes, closes, others = [], [], [], []
    lines = 0
    with open(log, errors='replace') as f:
        for line in f:
            m = _CALL.match(line.rstrip('\n'))
            if not m:
                continue
            pid, name, args, ret, _tail = m.groups()
            if BEGIN in args:
                inside, seen_begin = True, True
                continue
            if END in args:
                inside, seen_end = False, True
                continue
            if not inside:
                continue
            lines += 1
            hit = next((k for k in paths if k in args), None)
            if hit is None:
                continue
            who = paths[hit]
            retv = int(ret) if ret not in ('?',) else None
            if name in ('open', 'openat', 'creat'):
                fl = re.search(r'\b(O_[A-Z_|]+)', args)
                flags = set(fl.group(1).split('|')) if fl else ({'O_WRONLY', 'O_CREAT', 'O_TRUNC'} if name == 'creat' else set())
                opens.append((who, sorted(flags), retv))
            elif name in ('write', 'pwrite64', 'writev', 'pwritev'):
                fm = _FDPATH.match(args)
                if fm and fm.group(2) == hit:
                    writes.append((who, retv, name))
            elif name == 'close':
                fm = _FDPATH.match(args)
                if fm and fm.group(2) == hit:
                    closes.append(who)
                    writes.append((who, None, 'close'))
            elif name == 'lseek':
                fm = _FDPATH.match(args)
                if fm and fm.group(2) == hit and 'SEEK_SET' in args:
                    others.append((name, who, retv))
            elif name in ('ftruncate', 'truncate', 'rename', 'renameat', 'renameat2', 'unlink', 'unlinkat'):
                others.append((name, who, retv))
    return {'opens': opens, 'writes': writes, 'closes': closes, 'others': others, 'lines_inside': lines,
            'markers': (seen_begin, seen_end)}


def judge_source(ev) -> list:
    """C19 at the level of the operating system: between the markers the source file is only ever opened read-only, never
    written, truncated, renamed or removed."""
    bad = []
    for who, flags, ret in ev['opens']:
        if who == 'source' and (set(flags) & {'O_WRONLY', 'O_RDWR', 'O_TRUNC', 'O_CREAT', 'O_APPEND'}):
            bad.append(f'source opened with {"|".join(flags)}')
    for who, n, name in ev['writes']:
        if who == 'source' and name != 'close':
            bad.append(f'{name} of {n} bytes to the source file')
    for name, who, ret in ev['others']:
        if who == 'source' and name != 'lseek':
            bad.append(f'{name} on the source file')
    return bad


def judge_target(ev, boundaries, prior=False) -> tuple:
    """C10 at the level of the operating system: the target is created / emptied by its FIRST open only, later opens append;
    every time a descriptor of the target is closed the bytes written so far end on a visible-record boundary of the final
    file; nothing is truncated, renamed, removed or written at an absolute offset.  Returns (problems, sizes at each close)."""
    bad = []
    topens = [(flags, ret) for who, flags, ret in ev['opens'] if who == 'target']
    for k, (flags, ret) in enumerate(topens):
        fs = set(flags)
        if not (fs & {'O_WRONLY', 'O_RDWR'}):
            continue
        if k == 0 and 'O_TRUNC' not in fs:
            bad.append(f'first open of the target without O_TRUNC ({"|".join(flags)})')
        if k > 0 and 'O_TRUNC' in fs:
            bad.append(f'open #{k + 1} of the target truncates it ({"|".join(flags)})')
        if k > 0 and 'O_APPEND' not in fs:
            bad.append(f'open #{k + 1} of the target neither truncates nor appends ({"|".join(flags)})')
    size, sizes = 0, []
    for who, n, name in ev['writes']:
        if who != 'target':
            continue
        if name == 'close':
            sizes.append(size)
            if size and size not in boundaries:
                bad.append(f'target closed at {size} bytes, not a visible-record boundary')
        elif name in ('pwrite64', 'pwritev'):
            bad.append(f'{name} (write at an absolute offset) on the target')
        elif n is not None and n > 0:
            size += n
    for name, who, ret in ev['others']:
        if who == 'target':
            bad.append(f'{name} on the target')
    if ev['data'] is not None and size != len(ev['data']):
        bad.append(f'{size} bytes written to the target through write(2), file holds {len(ev["data"])}')
    return bad, sizes
