"""One specification written in a process of its own, to be run under strace:
python -m vf.syscase <spec.json> <out.dlis> <result.json>

Everything the caller prepares (objects, arrays, the HDF5 source file) is built BEFORE the begin marker; between the two
markers only DLISFile.write runs.  The markers are stat calls on paths that do not exist (they show up in the trace)."""
import json
import os
import sys

BEGIN, END = '/vf-syscall-marker-begin', '/vf-syscall-marker-end'


def _mark(path):
    try:
        os.stat(path)
    except OSError:
        pass


def main(argv):
    spec_path, out_path, res_path = argv
    spec = json.load(open(spec_path))
    from vf import harness, spec as S
    harness.quiet()
    b = S.build(spec)
    res = {'build_error': b.error, 'outcomes': b.outcomes, 'source_path': None}
    if b.error is None:
        scratch = os.path.dirname(out_path)
        data = S.make_write_data(spec, b, scratch)
        if isinstance(data, str):
            res['source_path'] = data
        prior = spec.get('write', {}).get('prior_bytes')
        if prior:
            with open(out_path, 'wb') as f:
                f.write(b'\xa5' * int(prior))
        _mark(BEGIN)
        res['write'] = S.do_write(spec, b, out_path, scratch, data=data)
        _mark(END)
    json.dump(res, open(res_path, 'w'))


if __name__ == '__main__':
    main(sys.argv[1:])
