"""Worker: runs one shard of one property's workload in its own process."""
from __future__ import annotations
import faulthandler
import importlib
import json
import os
import resource
import sys
import time
import traceback
from collections import Counter


THOROUGH_ROUNDS = {'C01': 8, 'C02': 6, 'C03': 5, 'C04': 5, 'C05': 5, 'C06': 10, 'C07': 4, 'C08': 8, 'C09': 3, 'C10': 5,
                   'C11': 3, 'C12': 10, 'C13': 10, 'C14': 1, 'C15': 3, 'C16': 10, 'C17': 10, 'C18': 8, 'C19': 8, 'C20': 1}


def load_check(prop: str):
    return importlib.import_module(f'vf.checks.{prop.lower()}')


def run_cases(mod, cases, budget_s=None):
    t0 = time.time()
    res = {'evals': 0, 'violations': [], 'obs': Counter(), 'sigs': set(), 'samples': [], 'harness_errors': [],
           'strata': Counter(), 'cases': 0, 'skipped_for_time': 0, 'extra': {}}
    for case in cases:
        if budget_s is not None and time.time() - t0 > budget_s:
            res['skipped_for_time'] += 1
            continue
        res['cases'] += 1
        res['strata'][case.get('stratum', '?')] += 1
        try:
            out = mod.run_case(case)
        except Exception as e:  # harness failure: never a verdict on the code under test
            res['harness_errors'].append({'case': _brief(case), 'error': f'{type(e).__name__}: {e}',
                                          'trace': traceback.format_exc()[-1500:]})
            continue
        res['evals'] += out.get('evals', 1)
        for v in out.get('violations', []):
            v = dict(v)
            v['case'] = case
            res['violations'].append(v)
        res['obs'].update(out.get('obs', {}))
        res['sigs'].update(out.get('sigs', []))
        if out.get('sample') is not None and len(res['samples']) < 3:
            res['samples'].append(out['sample'])
        for k, val in out.get('extra', {}).items():
            if isinstance(val, (int, float)):
                res['extra'][k] = res['extra'].get(k, 0) + val
    res['wall_s'] = time.time() - t0
    return res


def _brief(case):
    s = json.dumps(case, default=str)
    return s if len(s) < 2000 else s[:2000] + '...'


def main(argv):
    prop, tier, seed, shard, nshards, outfile = argv[0], argv[1], int(argv[2]), int(argv[3]), int(argv[4]), argv[5]
    budget = float(argv[6]) if len(argv) > 6 else None
    faulthandler.enable()
    try:
        lim = int(os.environ.get('VF_RLIMIT_AS_GIB', '8')) << 30
        resource.setrlimit(resource.RLIMIT_AS, (lim, lim))
    except (ValueError, OSError):
        pass
    import dliswriter
    repo_src = os.environ.get('VF_REPO_SRC', '/repo/src')
    assert os.path.realpath(dliswriter.__file__).startswith(os.path.realpath(repo_src)), dliswriter.__file__
    from vf import harness
    harness.quiet()
    mod = load_check(prop)
    if hasattr(mod, 'setup'):
        mod.setup(tier, seed)
    # the thorough tier is the union of several seeded explorations of the same workload (rounds differ in every random draw;
    # enumerated strata are simply repeated with other random fill-ins)
    rounds = THOROUGH_ROUNDS.get(prop.upper(), 1) if tier == 'thorough' else 1
    rounds = int(os.environ.get('VF_THOROUGH_ROUNDS', rounds))

    def all_rounds():
        k = 0
        for rd in range(rounds):
            sd = seed + rd * 100003
            for c in mod.cases(tier, sd):
                if rd and c.get('once'):
                    continue
                if k % nshards == shard:
                    yield dict(c, seed=sd)
                k += 1
    mine = all_rounds()
    try:
        res = run_cases(mod, mine, budget)
        if hasattr(mod, 'finish'):
            extra = mod.finish()
            if extra:
                res['obs'].update(extra.get('obs', {}))
                res['extra'].update(extra.get('extra', {}))
    finally:
        harness.cleanup()
    res['obs'] = dict(res['obs'])
    res['strata'] = dict(res['strata'])
    res['sigs'] = sorted(res['sigs'])
    with open(outfile, 'w') as f:
        json.dump(res, f, default=str)


if __name__ == '__main__':
    main(sys.argv[1:])
